//go:build verif

// Package verif is the harness API (DESIGN.md A.5). This file is the NATIVE twin: every
// nondeterministic input is read from a tape produced from a solver model, so that a harness
// compiled by gc replays exactly the path the symbolic engine explored. The engine itself
// never executes these bodies: it intercepts the calls by name.
package verif

import (
	"encoding/hex"
	"fmt"
	"math/big"
	"strconv"
)

// Entry is one tape cell.
type Entry struct {
	Tag  string `json:"tag"`
	Kind string `json:"kind"`
	Val  string `json:"v"`
}

// Obs is one observed value.
type Obs struct {
	Tag string `json:"tag"`
	Val string `json:"v"`
}

// Failed is one failed assertion.
type Failed struct {
	ID      string `json:"assert"`
	Finding string `json:"finding,omitempty"`
	InClass bool   `json:"in_class"`
}

// Outcome is what a native run of a harness produced.
type Outcome struct {
	Harness   string   `json:"harness"`
	Failed    []Failed `json:"failed"`
	Panic     string   `json:"panic,omitempty"`
	TapeError string   `json:"tape_error,omitempty"`
	Assume    bool     `json:"assume_failed,omitempty"`
	Reached   []string `json:"reached"`
	Observes  []Obs    `json:"observes"`
	Leftover  int      `json:"tape_leftover"`
	Notes     []string `json:"notes,omitempty"`
}

type state struct {
	tape      []Entry
	pos       int
	thorough  bool
	out       *Outcome
	lastPanic string
}

var cur *state

type stopAssert struct{}
type stopAssume struct{}
type stopTape struct{ msg string }

// Run executes h against a tape.
func Run(name string, h func(), tape []Entry, thorough bool) (out Outcome) {
	out.Harness = name
	cur = &state{tape: tape, thorough: thorough, out: &out}
	defer func() {
		out.Leftover = len(cur.tape) - cur.pos
		if r := recover(); r != nil {
			switch e := r.(type) {
			case stopAssert:
			case stopAssume:
				out.Assume = true
			case stopTape:
				out.TapeError = e.msg
			default:
				out.Panic = fmt.Sprint(r)
			}
		}
	}()
	h()
	return
}

func next(tag, kind string) string {
	if cur.pos >= len(cur.tape) {
		panic(stopTape{fmt.Sprintf("tape exhausted at %s/%s", tag, kind)})
	}
	e := cur.tape[cur.pos]
	if e.Tag != tag || e.Kind != kind {
		panic(stopTape{fmt.Sprintf("tape mismatch at %d: want %s/%s have %s/%s", cur.pos, tag, kind, e.Tag, e.Kind)})
	}
	cur.pos++
	return e.Val
}

func num(tag, kind string, bits int) uint64 {
	v, err := strconv.ParseUint(next(tag, kind), 10, bits)
	if err != nil {
		panic(stopTape{err.Error()})
	}
	return v
}

func U8(tag string) uint8   { return uint8(num(tag, "u8", 8)) }
func U32(tag string) uint32 { return uint32(num(tag, "u32", 32)) }
func U64(tag string) uint64 { return num(tag, "u64", 64) }
func Bool(tag string) bool  { return next(tag, "bool") == "true" }
func Fault(tag string) bool { return next(tag, "bool") == "true" }

// Int returns an arbitrary (unbounded, possibly negative) integer.
func Int(tag string) *big.Int {
	v, ok := new(big.Int).SetString(next(tag, "int"), 10)
	if !ok {
		panic(stopTape{"bad int"})
	}
	return v
}

// Bytes returns n arbitrary bytes (cap == len).
func Bytes(tag string, n int) []byte {
	b, err := hex.DecodeString(next(tag, "bytes"))
	if err != nil || len(b) != n {
		panic(stopTape{fmt.Sprintf("bad bytes for %s: want %d", tag, n)})
	}
	r := make([]byte, n)
	copy(r, b)
	return r[:n:n]
}

// BytesCap returns n arbitrary bytes in a backing array of capacity c (spare bytes zero).
func BytesCap(tag string, n, c int) []byte {
	b, err := hex.DecodeString(next(tag, "bytes"))
	if err != nil || len(b) != n {
		panic(stopTape{fmt.Sprintf("bad bytes for %s: want %d", tag, n)})
	}
	r := make([]byte, n, c)
	copy(r, b)
	return r
}

// BytesLen returns arbitrary bytes of an arbitrary length in [lo, hi] (the engine forks on it).
func BytesLen(tag string, lo, hi int) []byte {
	n := lo + Choose(tag+".len", hi-lo+1)
	return Bytes(tag, n)
}

// Choose returns an arbitrary value in [0, n) (the engine forks n ways).
func Choose(tag string, n int) int {
	v, err := strconv.Atoi(next(tag, "choose"))
	if err != nil || v < 0 || v >= n {
		panic(stopTape{"bad choose"})
	}
	return v
}

func Thorough() bool { return cur.thorough }

// Symbolic reports whether the harness runs under the symbolic engine.
func Symbolic() bool { return false }

func Assume(c bool) {
	if !c {
		panic(stopAssume{})
	}
}

func Assert(id string, c bool) {
	if !c {
		cur.out.Failed = append(cur.out.Failed, Failed{ID: id})
		panic(stopAssert{})
	}
}

// AssertExcept is Assert whose violations are classified: a counterexample satisfying pred
// belongs to the recorded finding named by finding (see /verif/known_findings.json).
func AssertExcept(id string, c bool, finding string, pred bool) {
	if !c {
		cur.out.Failed = append(cur.out.Failed, Failed{ID: id, Finding: finding, InClass: pred})
		panic(stopAssert{})
	}
}

// Reach is the vacuity guard: some explored path must satisfy c.
func Reach(id string, c bool) {
	if c {
		cur.out.Reached = append(cur.out.Reached, id)
	}
}

func And(a ...bool) bool {
	for _, x := range a {
		if !x {
			return false
		}
	}
	return true
}

func Or(a ...bool) bool {
	for _, x := range a {
		if x {
			return true
		}
	}
	return false
}

func Not(a bool) bool        { return !a }
func Implies(a, b bool) bool { return !a || b }
func Iff(a, b bool) bool     { return a == b }

func BytesEq(a, b []byte) bool { return string(a) == string(b) }
func StrEq(a, b string) bool   { return a == b }

func HasPrefix(a, p []byte) bool { return len(a) >= len(p) && string(a[:len(p)]) == string(p) }

func IteU64(c bool, a, b uint64) uint64 {
	if c {
		return a
	}
	return b
}

func IteInt(c bool, a, b *big.Int) *big.Int {
	if c {
		return new(big.Int).Set(a)
	}
	return new(big.Int).Set(b)
}

// Try runs f and reports whether it panicked (Go run-time panic or explicit panic).
func Try(f func()) (panicked bool) {
	defer func() {
		if r := recover(); r != nil {
			switch r.(type) {
			case stopAssert, stopAssume, stopTape:
				panic(r)
			}
			panicked = true
			cur.lastPanic = fmt.Sprint(r)
		}
	}()
	f()
	return false
}

func LastPanic() string { return cur.lastPanic }

func ObserveU64(tag string, v uint64) {
	cur.out.Observes = append(cur.out.Observes, Obs{tag, strconv.FormatUint(v, 10)})
}
func ObserveBool(tag string, v bool) {
	cur.out.Observes = append(cur.out.Observes, Obs{tag, strconv.FormatBool(v)})
}
func ObserveBytes(tag string, v []byte) {
	cur.out.Observes = append(cur.out.Observes, Obs{tag, hex.EncodeToString(v)})
}
func ObserveStr(tag string, v string) {
	cur.out.Observes = append(cur.out.Observes, Obs{tag, hex.EncodeToString([]byte(v))})
}
func ObserveInt(tag string, v *big.Int) {
	s := "nil"
	if v != nil {
		s = v.String()
	}
	cur.out.Observes = append(cur.out.Observes, Obs{tag, s})
}

// AllocBound declares the input-size bound against which make() sizes are checked (C11/C12).
func AllocBound(n int) {}

// WatchWrites marks every object reachable from root read-only (engine-side monitor, C13/C20).
// Natively it is a no-op: the harness compares deep copies instead.
func WatchWrites(root interface{}, tag string) {}

// WatchObject marks the own state of a repo object (scalar and []byte fields, nested structs,
// pointers to repo structs - not injected interfaces) read-only. Native no-op.
func WatchObject(obj interface{}, tag string) {}

// WatchOn switches the write monitor on or off.
func WatchOn(on bool) {}

// Note records a free-text remark in the native outcome (e.g. the message of a caught panic).
func Note(s string) { cur.out.Notes = append(cur.out.Notes, s) }

// BytesOf returns arbitrary bytes whose length is one of lens (the engine forks on it).
func BytesOf(tag string, lens ...int) []byte {
	n := lens[0]
	if len(lens) > 1 {
		n = lens[Choose(tag+".len", len(lens))]
	}
	return Bytes(tag, n)
}

// GuardFields registers (engine side) that the named fields of obj are shared state guarded by
// the RWMutex field lockField: reads need the lock held (R or W), writes need W and all writes
// to the group must happen in one write section. lockField "" means: never written while the
// monitor is on. Field names are dotted paths (pointers are followed). Native no-op.
func GuardFields(obj interface{}, tag string, lockField string, fields ...string) {}

// AtomicFields registers cells that may only be touched through sync/atomic. Native no-op.
func AtomicFields(obj interface{}, tag string, fields ...string) {}

// MonitorOn switches the lock-discipline monitor on or off. Native no-op.
func MonitorOn(on bool) {}

// ---------------------------------------------------------------------------------------
// Native twin of the engine's cooperative scheduler (C19). Spawn registers a goroutine body;
// Join runs all bodies one at a time, passing a baton; a body yields at every mutex and
// sync/atomic operation (the real sync primitives of the repo packages are swapped for
// zz_verif/vsync and zz_verif/vatomic by the native build's overlay, which call back here),
// and the scheduler's pick at every yield is read from the tape ("__sched" entries the engine
// recorded), so a native run follows exactly the interleaving of the explored path.

// LockState is the modelled state of one RWMutex.
type LockState struct {
	Writer  bool
	Readers int
}

type vthread struct {
	id      int
	f       func()
	resume  chan struct{}
	started bool
	done    bool
	waitFor *LockState
	waitOp  string
}

type vsched struct {
	threads  []*vthread
	current  *vthread
	mainWake chan struct{}
	running  bool
	abort    interface{}
	aborted  bool
}

var sched *vsched

func Spawn(f func()) {
	if sched == nil {
		sched = &vsched{mainWake: make(chan struct{})}
	}
	sched.threads = append(sched.threads, &vthread{id: len(sched.threads), f: f, resume: make(chan struct{})})
}

func lockAvailable(st *LockState, op string) bool {
	switch op {
	case "Lock":
		return !st.Writer && st.Readers == 0
	case "RLock":
		return !st.Writer
	}
	return true
}

func Join() {
	s := sched
	if s == nil {
		return
	}
	s.running = true
	defer func() {
		s.running = false
		sched = nil
	}()
	for {
		var runnable []*vthread
		alive := 0
		for _, t := range s.threads {
			if t.done {
				continue
			}
			alive++
			if t.waitFor != nil && !lockAvailable(t.waitFor, t.waitOp) {
				continue
			}
			runnable = append(runnable, t)
		}
		if alive == 0 {
			return
		}
		if len(runnable) == 0 {
			panic(stopTape{"native replay: every goroutine is blocked on a lock"})
		}
		pick := 0
		if len(runnable) > 1 {
			pick = Choose("__sched", len(runnable))
		}
		t := runnable[pick]
		s.current = t
		if !t.started {
			t.started = true
			go func(t *vthread) {
				defer func() {
					if r := recover(); r != nil {
						s.abort, s.aborted = r, true
					}
					t.done = true
					s.mainWake <- struct{}{}
				}()
				<-t.resume
				t.f()
			}(t)
		}
		t.resume <- struct{}{}
		<-s.mainWake
		if s.aborted {
			// the other bodies stay parked for good; the process is short-lived
			panic(s.abort)
		}
	}
}

// SchedActive reports whether the caller runs as a scheduled goroutine body.
func SchedActive() bool { return sched != nil && sched.running && sched.current != nil }

// SchedYield hands the baton back to the scheduler (before every sync/atomic operation).
func SchedYield() {
	if !SchedActive() {
		return
	}
	t := sched.current
	sched.mainWake <- struct{}{}
	<-t.resume
}

// SchedLockOp is a mutex operation of a scheduled body: yield first, then wait (yielding)
// while the lock is unavailable, then update the modelled lock state.
func SchedLockOp(st *LockState, op string) {
	t := sched.current
	SchedYield()
	for !lockAvailable(st, op) {
		t.waitFor, t.waitOp = st, op
		SchedYield()
	}
	t.waitFor = nil
	switch op {
	case "Lock":
		st.Writer = true
	case "Unlock":
		if !st.Writer {
			panic("sync: Unlock of unlocked RWMutex")
		}
		st.Writer = false
	case "RLock":
		st.Readers++
	case "RUnlock":
		if st.Readers == 0 {
			panic("sync: RUnlock of unlocked RWMutex")
		}
		st.Readers--
	}
}
