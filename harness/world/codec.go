//go:build verif

package world

import (
	"math/big"

	"github.com/ElrondNetwork/elrond-vm-common/data/esdt"
	"github.com/ElrondNetwork/elrond-vm-common/zz_verif/verif"
)

// Codec is the abstract marshalizer (DESIGN.md §4.5). Marshal deep-snapshots the object and
// returns a fresh handle: concrete bytes [magic, id, filler…]. Unmarshal resets the target and
// copies the snapshot back when the buffer is a handle; any other non-empty buffer decodes,
// nondeterministically, to an error or to an arbitrary value of the type; the empty buffer
// decodes to the zero value (protobuf semantics). Contract assumed of the production encoder:
// Unmarshal(Marshal(x)) = x after Reset, Marshal total and deterministic, an ESDTRoles value
// without roles encodes to the empty string - discharged for the generated code by C14.
type Codec struct {
	W          *World
	Handles    []*Handle
	Marshalled [][]byte // what Marshal returned, in call order
	nGen       int
	nMarshal   int
}

// Handle is one marshalled object.
type Handle struct {
	Gen   bool
	Bytes []byte
	Tok   *esdt.ESDigitalToken
	Roles *esdt.ESDTRoles
}

const handleMagic = 0xA5

func (c *Codec) IsInterfaceNil() bool { return c == nil }

func (c *Codec) newHandle() *Handle { return c.newHandleKind(false) }

// newHandleKind allots a handle. Generated (pre-state) handles and handles produced by Marshal
// live in separate id spaces so that Reset can drop the latter and a repeated run is handed
// the very same bytes again (C13).
func (c *Codec) newHandleKind(gen bool) *Handle {
	var id int
	if gen {
		id = 0x80 + c.nGen
		c.nGen++
	} else {
		id = c.nMarshal
		c.nMarshal++
	}
	n := 3 + id%3
	b := make([]byte, n)
	b[0] = handleMagic
	b[1] = byte(id)
	for i := 2; i < n; i++ {
		b[i] = byte(0x10 + i)
	}
	h := &Handle{Bytes: b, Gen: gen}
	c.Handles = append(c.Handles, h)
	return h
}

// Pack encodes a token as part of the scenario's given input (a protocol-generated payload):
// the handle belongs to the pre-state, not to what the call under test marshals.
func (c *Codec) Pack(t *esdt.ESDigitalToken) []byte {
	h := c.newHandleKind(true)
	h.Tok = CloneToken(t)
	return h.Bytes
}

// Reset forgets everything Marshal produced (pre-state handles stay).
func (c *Codec) Reset() {
	var keep []*Handle
	for _, h := range c.Handles {
		if h.Gen {
			keep = append(keep, h)
		}
	}
	c.Handles = keep
	c.nMarshal = 0
	c.Marshalled = nil
}

// Marshal implements vmcommon.Marshalizer.
func (c *Codec) Marshal(obj interface{}) ([]byte, error) {
	if c.W.fault("fault.Marshal") {
		return nil, ErrFault
	}
	switch x := obj.(type) {
	case *esdt.ESDigitalToken:
		h := c.newHandle()
		h.Tok = CloneToken(x)
		c.Marshalled = append(c.Marshalled, h.Bytes)
		return h.Bytes, nil
	case *esdt.ESDTRoles:
		if len(x.Roles) == 0 {
			return []byte{}, nil
		}
		h := c.newHandle()
		h.Roles = CloneRoles(x)
		c.Marshalled = append(c.Marshalled, h.Bytes)
		return h.Bytes, nil
	}
	panic("codec: Marshal of unexpected type")
}

// Lookup returns the handle a buffer denotes, or nil.
func (c *Codec) Lookup(buf []byte) *Handle {
	if len(buf) < 2 {
		return nil
	}
	if buf[0] != handleMagic {
		return nil
	}
	for _, h := range c.Handles {
		if len(h.Bytes) == len(buf) && buf[1] == h.Bytes[1] {
			return h
		}
	}
	return nil
}

// Unmarshal implements vmcommon.Marshalizer.
func (c *Codec) Unmarshal(obj interface{}, buf []byte) error {
	if c.W.fault("fault.Unmarshal") {
		return ErrFault
	}
	h := c.Lookup(buf)
	switch x := obj.(type) {
	case *esdt.ESDigitalToken:
		if len(buf) == 0 {
			*x = esdt.ESDigitalToken{}
			return nil
		}
		if h != nil {
			if h.Tok == nil {
				return ErrFault // a role-list encoding is not a token encoding
			}
			*x = *CloneToken(h.Tok)
			return nil
		}
		// arbitrary bytes: error or an arbitrary value (registered so the decode is a function)
		if verif.Bool("decode.err") {
			return ErrFault
		}
		t := ArbitraryToken("decoded")
		nh := &Handle{Gen: true, Bytes: buf, Tok: CloneToken(t)}
		c.Handles = append(c.Handles, nh)
		*x = *t
		return nil
	case *esdt.ESDTRoles:
		if len(buf) == 0 {
			*x = esdt.ESDTRoles{}
			return nil
		}
		if h != nil {
			if h.Roles == nil {
				return ErrFault
			}
			*x = *CloneRoles(h.Roles)
			return nil
		}
		if verif.Bool("decode.err") {
			return ErrFault
		}
		r := &esdt.ESDTRoles{}
		n := verif.Choose("decoded.roles.n", 2)
		for i := 0; i < n; i++ {
			r.Roles = append(r.Roles, verif.Bytes("decoded.role", 17))
		}
		*x = *r
		return nil
	}
	panic("codec: Unmarshal of unexpected type")
}

// Token decodes a storage value into the token it denotes (nil when absent or not a token).
func (c *Codec) Token(buf []byte) *esdt.ESDigitalToken {
	h := c.Lookup(buf)
	if h == nil {
		return nil
	}
	return h.Tok
}

// RolesOf decodes a storage value into the role list it denotes (empty when absent).
func (c *Codec) RolesOf(buf []byte) [][]byte {
	h := c.Lookup(buf)
	if h == nil || h.Roles == nil {
		return nil
	}
	return h.Roles.Roles
}

// BalanceOf is the balance a storage value denotes (0 when absent).
func (c *Codec) BalanceOf(buf []byte) *big.Int {
	t := c.Token(buf)
	if t == nil || t.Value == nil {
		return big.NewInt(0)
	}
	return t.Value
}

func cloneBytes(b []byte) []byte {
	if b == nil {
		return nil
	}
	r := make([]byte, len(b))
	copy(r, b)
	return r
}

// CloneToken deep-copies a token.
func CloneToken(t *esdt.ESDigitalToken) *esdt.ESDigitalToken {
	if t == nil {
		return nil
	}
	r := &esdt.ESDigitalToken{Type: t.Type, Properties: cloneBytes(t.Properties), Reserved: cloneBytes(t.Reserved)}
	if t.Value != nil {
		r.Value = new(big.Int).Set(t.Value)
	}
	if t.TokenMetaData != nil {
		m := t.TokenMetaData
		rm := &esdt.MetaData{Nonce: m.Nonce, Name: cloneBytes(m.Name), Creator: cloneBytes(m.Creator), Royalties: m.Royalties,
			Hash: cloneBytes(m.Hash), Attributes: cloneBytes(m.Attributes)}
		for _, u := range m.URIs {
			rm.URIs = append(rm.URIs, cloneBytes(u))
		}
		r.TokenMetaData = rm
	}
	return r
}

// CloneRoles deep-copies a role list.
func CloneRoles(r *esdt.ESDTRoles) *esdt.ESDTRoles {
	out := &esdt.ESDTRoles{}
	for _, x := range r.Roles {
		out.Roles = append(out.Roles, cloneBytes(x))
	}
	return out
}

// ArbitraryToken is any value a decoder may produce (fields may be absent; no invariant).
func ArbitraryToken(tag string) *esdt.ESDigitalToken {
	t := &esdt.ESDigitalToken{Type: verif.U32(tag + ".type")}
	if verif.Bool(tag + ".hasValue") {
		t.Value = verif.Int(tag + ".value")
	}
	t.Properties = verif.BytesLen(tag+".props", 0, 2)
	if verif.Bool(tag + ".hasMeta") {
		t.TokenMetaData = &esdt.MetaData{
			Nonce:      verif.U64(tag + ".nonce"),
			Name:       verif.BytesLen(tag+".name", 0, 1),
			Creator:    verif.BytesLen(tag+".creator", 0, 1),
			Royalties:  verif.U32(tag + ".royalties"),
			Hash:       verif.BytesLen(tag+".hash", 0, 1),
			Attributes: verif.BytesLen(tag+".attr", 0, 1),
		}
	}
	return t
}

// MetaEq is deep equality of metadata as one boolean term.
func MetaEq(a, b *esdt.MetaData) bool {
	if a == nil || b == nil {
		return a == nil && b == nil
	}
	if len(a.URIs) != len(b.URIs) {
		return false
	}
	r := verif.And(a.Nonce == b.Nonce, verif.BytesEq(a.Name, b.Name), verif.BytesEq(a.Creator, b.Creator),
		a.Royalties == b.Royalties, verif.BytesEq(a.Hash, b.Hash), verif.BytesEq(a.Attributes, b.Attributes))
	for i := range a.URIs {
		r = verif.And(r, verif.BytesEq(a.URIs[i], b.URIs[i]))
	}
	return r
}
