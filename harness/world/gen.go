//go:build verif

package world

import (
	"math/big"

	vmcommon "github.com/ElrondNetwork/elrond-vm-common"
	"github.com/ElrondNetwork/elrond-vm-common/data/esdt"
	"github.com/ElrondNetwork/elrond-vm-common/zz_verif/verif"
)

// KeyClass classifies a storage key by its prefix (forks when the prefix bytes are symbolic).
func KeyClass(key []byte) string {
	if verif.HasPrefix(key, RolePrefix) {
		return "role"
	}
	if verif.HasPrefix(key, NoncePrefix) {
		return "nonce"
	}
	if verif.HasPrefix(key, TokenPrefix) {
		return "token"
	}
	return "other"
}

// genValue produces the pre-state value of a cell on first touch, constrained by Inv (§4.6).
func (w *World) genValue(a *Account, key []byte) []byte {
	switch KeyClass(key) {
	case "token":
		if a.IsSystem {
			return w.genPauseFlag()
		}
		return w.genTokenCell(a, key)
	case "role":
		return w.genRoleCell()
	case "nonce":
		if !verif.Bool("nonce.present") {
			return nil
		}
		// big-endian bytes (leading zeros allowed); 8 bytes cover every counter value
		if w.Cfg.Thin {
			return verif.Bytes("nonce.value", 1)
		}
		nv := verif.BytesOf("nonce.value", 8, 1)
		if len(nv) == 8 {
			// stated bound: the counter is below 2^64-1 (the nonce+1 wrap needs 2^64 creates)
			all := true
			for _, b := range nv {
				all = verif.And(all, b == 0xff)
			}
			verif.Assume(!all)
		}
		return nv
	}
	n := w.Cfg.RawOther
	if n == 0 {
		n = 2
	}
	if !verif.Bool("raw.present") {
		return nil
	}
	return verif.BytesLen("raw.value", 1, n)
}

func (w *World) genPauseFlag() []byte {
	if w.Cfg.Thin || w.Cfg.NoPauseGen || !verif.Bool("pause.present") {
		return nil
	}
	if w.Cfg.PauseBinary {
		// a present flag is the paused flag ({1,0}); "present but not paused" behaves like absent
		return []byte{1, 0}
	}
	return verif.Bytes("pause.flag", 2)
}

func (w *World) genRoleCell() []byte {
	n := verif.Choose("roles.n", w.Cfg.RolesMax+1)
	if n == 0 {
		return nil
	}
	r := &esdt.ESDTRoles{}
	for i := 0; i < n; i++ {
		l := w.Cfg.RoleLens[verif.Choose("role.len", len(w.Cfg.RoleLens))]
		role := verif.Bytes("role", l)
		// Inv: pairwise distinct entries
		for _, prev := range r.Roles {
			verif.Assume(!verif.BytesEq(prev, role))
		}
		r.Roles = append(r.Roles, role)
	}
	h := w.Codec.newHandleKind(true)
	h.Roles = r
	return h.Bytes
}

// genTokenCell: absent, or an ESDigitalToken satisfying Inv.
func (w *World) genTokenCell(a *Account, key []byte) []byte {
	if !w.Cfg.Thin && !verif.Bool("tok.present") {
		return nil
	}
	t := w.GenToken(key[len(TokenPrefix):])
	h := w.Codec.newHandleKind(true)
	h.Tok = t
	return h.Bytes
}

// GenToken generates a token entry satisfying Inv for the key suffix x = tokenID‖nonceBytes.
func (w *World) GenToken(x []byte) *esdt.ESDigitalToken {
	t := &esdt.ESDigitalToken{}
	t.Value = verif.Int("tok.value")
	frozen := false
	if !w.Cfg.NoFrozenGen && !w.Cfg.Thin && verif.Bool("tok.hasProps") {
		t.Properties = verif.Bytes("tok.props", 2)
		// Inv: properties are only ever written by ESDTUserMetadata.ToBytes: {0|1, 0}
		verif.Assume(verif.And(t.Properties[0] <= 1, t.Properties[1] == 0))
		frozen = t.Properties[0]&1 != 0
	}
	hasMeta := false
	if len(x) > 0 {
		hasMeta = verif.Bool("tok.hasMeta")
	}
	if hasMeta {
		t.Type = uint32(vmcommon.NonFungible)
		verif.Assume(t.Value.Sign() > 0)
		// Inv: the key ends with the minimal big-endian bytes of the metadata nonce, nonce > 0
		maxj := len(x)
		if maxj > 8 {
			maxj = 8
		}
		if w.Cfg.Thin || w.Cfg.Split1 {
			maxj = 1
		}
		j := 1 + verif.Choose("tok.noncelen", maxj)
		nb := x[len(x)-j:]
		verif.Assume(nb[0] != 0)
		nonce := uint64(0)
		for _, b := range nb {
			nonce = nonce<<8 | uint64(b)
		}
		fl := w.Cfg.MetaFieldLen
		m := &esdt.MetaData{Nonce: nonce}
		m.Name = verif.Bytes("tok.name", fl)
		m.Creator = verif.Bytes("tok.creator", fl)
		m.Royalties = verif.U32("tok.royalties")
		verif.Assume(m.Royalties <= vmcommon.MaxRoyalty)
		m.Hash = verif.Bytes("tok.hash", fl)
		if w.Cfg.VaryHash {
			m.Hash = verif.BytesLen("tok.hash.v", 0, 1)
		}
		m.Attributes = verif.Bytes("tok.attr", fl)
		nu := 0
		if w.Cfg.MaxURIs > 0 && !w.Cfg.Thin {
			nu = verif.Choose("tok.nuris", w.Cfg.MaxURIs+1)
		}
		for i := 0; i < nu; i++ {
			m.URIs = append(m.URIs, verif.Bytes("tok.uri", fl))
		}
		t.TokenMetaData = m
	} else {
		t.Type = uint32(vmcommon.Fungible)
		// Inv: positive, or zero only to carry a frozen flag
		verif.Assume(verif.Or(t.Value.Sign() > 0, verif.And(t.Value.Sign() == 0, frozen)))
	}
	return t
}

// assertInv is C15's obligation on every logged write.
func (w *World) assertInv(a *Account, key, value, old []byte) {
	class := KeyClass(key)
	switch class {
	case "token":
		if len(value) == 0 {
			return
		}
		if a.IsSystem {
			verif.AssertExcept("inv-system-entry-is-pause-flag", len(value) == 2, "F10", w.SysDestCall)
			return
		}
		t := w.Codec.Token(value)
		verif.Assert("inv-token-decodes", t != nil)
		if t == nil {
			return
		}
		verif.Assert("inv-value-present", t.Value != nil)
		if t.Value == nil {
			return
		}
		frozen := false
		if len(t.Properties) == 2 {
			frozen = t.Properties[0]&1 != 0
		}
		verif.Assert("inv-props-shape", verif.Or(len(t.Properties) == 0, len(t.Properties) == 2))
		if t.TokenMetaData == nil {
			verif.Assert("inv-fungible-type", t.Type == uint32(vmcommon.Fungible))
			verif.Assert("inv-balance-positive-or-frozen-zero",
				verif.Or(t.Value.Sign() > 0, verif.And(t.Value.Sign() == 0, frozen)))
		} else {
			verif.Assert("inv-nft-type", t.Type == uint32(vmcommon.NonFungible))
			verif.Assert("inv-nft-balance-positive", t.Value.Sign() > 0)
			verif.Assert("inv-nft-nonce-positive", t.TokenMetaData.Nonce > 0)
			nb := big.NewInt(0).SetUint64(t.TokenMetaData.Nonce).Bytes()
			x := key[len(TokenPrefix):]
			ok := len(x) >= len(nb)
			if ok {
				verif.Assert("inv-key-ends-with-nonce", verif.BytesEq(x[len(x)-len(nb):], nb))
			} else {
				verif.Assert("inv-key-ends-with-nonce", false)
			}
		}
	case "role":
		if len(value) == 0 {
			return
		}
		roles := w.Codec.RolesOf(value)
		verif.Assert("inv-roles-decode", roles != nil)
		// "no duplicates under system-contract discipline": the harness may state the discipline
		disciplined := true
		if w.RoleDiscipline != nil {
			disciplined = w.RoleDiscipline(w.Codec.RolesOf(old))
		}
		for i := range roles {
			for j := i + 1; j < len(roles); j++ {
				verif.Assert("inv-roles-distinct", verif.Or(!disciplined, !verif.BytesEq(roles[i], roles[j])))
			}
		}
	case "nonce":
		verif.Assert("inv-nonce-shape", len(value) <= 8)
	}
}
