//go:build verif

// Package world is the symbolic environment of the built-in functions (DESIGN.md §4): lazily
// generated account storage constrained by the representation invariant Inv, an accounts
// adapter, a shard function, a payability oracle and an abstract codec. It is ordinary Go: the
// engine executes it symbolically, gc compiles it for native replay. Every stub and assumption
// in here is part of each claim that uses it.
package world

import (
	"errors"
	"math/big"

	vmcommon "github.com/ElrondNetwork/elrond-vm-common"
	"github.com/ElrondNetwork/elrond-vm-common/builtInFunctions"
	"github.com/ElrondNetwork/elrond-vm-common/zz_verif/verif"
)

// ErrFault is returned by a stub whose symbolic fault bit is set (C17).
var ErrFault = errors.New("injected fault")

var (
	TokenPrefix = []byte(vmcommon.ElrondProtectedKeyPrefix + vmcommon.ESDTKeyIdentifier)
	RolePrefix  = []byte(vmcommon.ElrondProtectedKeyPrefix + vmcommon.ESDTRoleIdentifier + vmcommon.ESDTKeyIdentifier)
	NoncePrefix = []byte(vmcommon.ElrondProtectedKeyPrefix + vmcommon.ESDTNFTLatestNonceIdentifier)
)

// Write is one entry of the write log: the complete diff of the world is this log.
type Write struct {
	Acct *Account
	Kind string // "kv" "username" "owner" "balance" "claim" "save-account"
	Key  []byte
	Val  []byte
	Old  []byte
}

// Config selects how much of the pre-state space a harness wants.
type Config struct {
	RolesMax           int   // max entries in a generated role list
	RoleLens           []int // candidate lengths of generated role strings
	MetaFieldLen       int   // length of generated Name/Hash/Attributes/Creator/URI fields
	MaxURIs            int
	Faults             bool // every stub call may fail (symbolic fault bit per call)
	CheckInv           bool // assert Inv on every logged write (C15)
	NoFrozenGen        bool // generated entries are never frozen (for harnesses that do not care)
	RawOther           int  // max length of generated raw values under unclassified keys
	GasEnough          bool // GasProvided >= 2^48 (above every charge reachable with 32-bit costs and the bounded arguments)
	NoReturnAfterError bool // ReturnCallAfterError pinned to false
	DirectCallOnly     bool // CallType pinned to DirectCall
	VaryHash           bool // generated metadata hashes have length 0 or 1
	NoPauseGen         bool // no pause flag is ever generated (pause is C04's subject)
	PauseBinary        bool // generated pause flags are absent or {1,0} (two-item thorough harnesses)
	Split1             bool // generated NFT metadata takes its nonce from the last key byte only (no multi-byte splits)
	Thin               bool // smallest pre-state space: no properties, no pause flags, shortest nonce split, no URIs
	GenOnBlindWrite    bool // materialise the pre-state of cells that are written without being read
}

// World owns all accounts and stubs of one harness run.
type World struct {
	Cfg      Config
	Codec    *Codec
	Accounts *AccountsAdapter
	Shards   *Coordinator
	Payable  *PayableOracle
	Pause    vmcommon.ESDTPauseHandler
	Roles    vmcommon.ESDTRoleHandler
	Epochs   *EpochNotifier
	Log      []Write
	FaultHit bool
	// CounterReadFaults: while set, a read of a nonce-counter key may fail (symbolic fault bit per
	// read). Storage reads are fail-soft for the entries whose absence is a valid state; the
	// counter is not one of them: "could not read" must not become "no nonce issued yet" (C07).
	CounterReadFaults bool
	ReadFaultHit      bool
	// SysDestCall: the call under test is a transfer addressed to the system account (finding F10's class)
	SysDestCall bool
	// RoleDiscipline states the system contract's discipline for role-list writes (C15): given the
	// previous list it says whether the write was made under the discipline.
	RoleDiscipline func(old [][]byte) bool
	nAcct          int
	Sys            *Account
}

// NewShared builds a second world (another shard) that shares only the codec with the first,
// so that payloads produced on one shard decode on the other.
func NewShared(cfg Config, codec *Codec) *World {
	w := New(cfg)
	w.Codec = codec
	roles, _ := builtInFunctions.NewESDTRolesFunc(codec, true)
	w.Roles = roles
	return w
}

// New builds a world with the real pause and role handlers wired to symbolic storage.
func New(cfg Config) *World {
	if cfg.RolesMax == 0 {
		cfg.RolesMax = 1
	}
	if len(cfg.RoleLens) == 0 {
		cfg.RoleLens = []int{17}
	}
	w := &World{Cfg: cfg}
	w.Codec = &Codec{W: w}
	w.Accounts = &AccountsAdapter{W: w}
	w.Shards = &Coordinator{W: w, Self: 0}
	w.Payable = &PayableOracle{W: w}
	w.Epochs = &EpochNotifier{}
	w.Sys = w.NewAccount("sys", vmcommon.SystemAccountAddress)
	w.Sys.IsSystem = true
	pause, _ := builtInFunctions.NewESDTPauseFunc(w.Accounts, true)
	w.Pause = pause
	roles, _ := builtInFunctions.NewESDTRolesFunc(w.Codec, true)
	w.Roles = roles
	return w
}

func (w *World) fault(tag string) bool {
	if !w.Cfg.Faults {
		return false
	}
	if verif.Fault(tag) {
		w.FaultHit = true
		return true
	}
	return false
}

// ---------------------------------------------------------------------------------------
// accounts

// Cell is one storage slot of an account, created on first touch.
type Cell struct {
	Key     []byte
	Init    []byte
	Cur     []byte
	Written bool
	Gen     bool // generated by a read (pre-state) rather than created by a write
	Blind   bool // first touched by a write: Init is unknown (nil) unless Cfg.GenOnBlindWrite
}

// Account implements vmcommon.UserAccountHandler and vmcommon.AccountDataHandler.
type Account struct {
	W         *World
	Name      string
	Addr      []byte
	Cells     []*Cell
	Owner     []byte
	UserName  []byte
	Balance   *big.Int
	DevReward *big.Int
	IsSystem  bool
	Nonce     uint64

	hasInit                    bool
	initOwner, initUserName    []byte
	initBalance, initDevReward *big.Int
}

// NewAccount registers an account with the accounts adapter.
func (w *World) NewAccount(name string, addr []byte) *Account {
	// distinct account objects have distinct addresses (one address = one account)
	for _, k := range w.Accounts.Known {
		if len(k.Addr) == len(addr) {
			verif.Assume(!verif.BytesEq(k.Addr, addr))
		}
	}
	a := &Account{W: w, Name: name, Addr: addr}
	w.Accounts.Known = append(w.Accounts.Known, a)
	w.nAcct++
	if name != "other" && name != "sys" {
		// an account handed to the call lives on the executing shard
		w.Shards.Set(addr, w.Shards.Self)
	}
	return a
}

// WithFields gives the account symbolic owner / user name / balance / reward fields.
func (a *Account) WithFields() *Account {
	a.Owner = verif.Bytes(a.Name+".owner", 32)
	a.UserName = verif.BytesLen(a.Name+".username", 0, 1)
	a.Balance = verif.Int(a.Name + ".balance")
	verif.Assume(a.Balance.Sign() >= 0)
	a.DevReward = verif.Int(a.Name + ".reward")
	verif.Assume(a.DevReward.Sign() >= 0)
	a.hasInit = true
	a.initOwner, a.initUserName, a.initBalance, a.initDevReward = a.Owner, a.UserName, a.Balance, a.DevReward
	return a
}

func (a *Account) IsInterfaceNil() bool                            { return a == nil }
func (a *Account) AddressBytes() []byte                            { return a.Addr }
func (a *Account) AccountDataHandler() vmcommon.AccountDataHandler { return a }
func (a *Account) GetCodeMetadata() []byte                         { return nil }
func (a *Account) GetCodeHash() []byte                             { return nil }
func (a *Account) GetRootHash() []byte                             { return nil }
func (a *Account) IncreaseNonce(n uint64)                          { a.Nonce += n }
func (a *Account) GetNonce() uint64                                { return a.Nonce }
func (a *Account) GetOwnerAddress() []byte                         { return a.Owner }
func (a *Account) GetUserName() []byte                             { return a.UserName }
func (a *Account) GetBalance() *big.Int                            { return a.Balance }
func (a *Account) GetDeveloperReward() *big.Int                    { return a.DevReward }

func (a *Account) SetOwnerAddress(o []byte) {
	a.W.Log = append(a.W.Log, Write{Acct: a, Kind: "owner", Val: o, Old: a.Owner})
	a.Owner = o
}

func (a *Account) SetUserName(n []byte) {
	a.W.Log = append(a.W.Log, Write{Acct: a, Kind: "username", Val: n, Old: a.UserName})
	a.UserName = n
}

func (a *Account) AddToBalance(v *big.Int) error {
	if a.W.fault("fault.AddToBalance") {
		return ErrFault
	}
	if a.Balance == nil {
		a.Balance = big.NewInt(0)
	}
	a.W.Log = append(a.W.Log, Write{Acct: a, Kind: "balance"})
	a.Balance = new(big.Int).Add(a.Balance, v)
	return nil
}

func (a *Account) ClaimDeveloperRewards(_ []byte) (*big.Int, error) {
	if a.W.fault("fault.ClaimDeveloperRewards") {
		return nil, ErrFault
	}
	if a.DevReward == nil {
		a.DevReward = big.NewInt(0)
	}
	r := new(big.Int).Set(a.DevReward)
	a.W.Log = append(a.W.Log, Write{Acct: a, Kind: "claim"})
	a.DevReward = big.NewInt(0)
	return r, nil
}

func (a *Account) ChangeOwnerAddress(_ []byte, newOwner []byte) error {
	if a.W.fault("fault.ChangeOwnerAddress") {
		return ErrFault
	}
	a.W.Log = append(a.W.Log, Write{Acct: a, Kind: "owner", Val: newOwner, Old: a.Owner})
	a.Owner = newOwner
	return nil
}

// Find returns the cell stored under key, or nil (never generates).
func (a *Account) Find(key []byte) *Cell {
	for _, c := range a.Cells {
		if verif.BytesEq(c.Key, key) {
			return c
		}
	}
	return nil
}

// RetrieveValue returns the current value, generating the pre-state lazily.
func (a *Account) RetrieveValue(key []byte) ([]byte, error) {
	if a.W.CounterReadFaults && KeyClass(key) == "nonce" {
		// the cell is materialised all the same: the oracle compares against what is stored
		if a.Find(key) == nil {
			k := cloneBytes(key)
			c := &Cell{Key: k, Gen: true}
			c.Init = a.W.genValue(a, k)
			c.Cur = c.Init
			a.Cells = append(a.Cells, c)
		}
		if verif.Fault("fault.RetrieveValue.counter") {
			a.W.ReadFaultHit = true
			return nil, ErrFault
		}
	}
	if c := a.Find(key); c != nil {
		return c.Cur, nil
	}
	// the trie owns its keys: the caller's slice may be a view on a reused backing array
	key = cloneBytes(key)
	c := &Cell{Key: key, Gen: true}
	c.Init = a.W.genValue(a, key)
	c.Cur = c.Init
	a.Cells = append(a.Cells, c)
	return c.Cur, nil
}

// SaveKeyValue writes and logs.
func (a *Account) SaveKeyValue(key []byte, value []byte) error {
	if a.W.fault("fault.SaveKeyValue") {
		return ErrFault
	}
	key = cloneBytes(key)
	value = cloneBytes(value)
	c := a.Find(key)
	if c == nil {
		// a blind write: the pre-state of the cell was never observed by the code under test
		c = &Cell{Key: key, Blind: true}
		if a.W.Cfg.GenOnBlindWrite {
			c.Gen = true
			c.Init = a.W.genValue(a, key)
			c.Cur = c.Init
		}
		a.Cells = append(a.Cells, c)
	}
	old := c.Cur
	a.W.Log = append(a.W.Log, Write{Acct: a, Kind: "kv", Key: key, Val: value, Old: old})
	c.Cur = value
	c.Written = true
	if a.W.Cfg.CheckInv {
		a.W.assertInv(a, key, value, old)
	}
	return nil
}

// ResetToInit puts the world back into the state it had before the first call: every cell
// holds its generated pre-state again, cells that only a write created disappear, account
// fields are restored and the write log is cleared. Oracle answers (shards, payability, roles
// stub) are kept: they are part of the "equal configuration" a repeated execution runs under.
func (w *World) ResetToInit() {
	for _, a := range w.Accounts.Known {
		var keep []*Cell
		for _, c := range a.Cells {
			if c.Blind && !c.Gen {
				continue
			}
			c.Cur = c.Init
			c.Written = false
			keep = append(keep, c)
		}
		a.Cells = keep
		if a.hasInit {
			a.Owner, a.UserName, a.Balance, a.DevReward = a.initOwner, a.initUserName, a.initBalance, a.initDevReward
		}
	}
	w.Log = nil
	w.Accounts.Saved, w.Accounts.Loaded = nil, nil
	w.Codec.Reset()
	w.FaultHit = false
}

// ---------------------------------------------------------------------------------------
// accounts adapter

type AccountsAdapter struct {
	W      *World
	Known  []*Account
	Saved  []*Account
	Loaded []*Account
	// FaultSys: whether loading the system account may fail (only ESDTPause/UnPause "have to
	// modify" it; everywhere else the load is the fail-soft pause lookup the property excludes).
	FaultSys bool
}

func (ad *AccountsAdapter) IsInterfaceNil() bool { return ad == nil }

func (ad *AccountsAdapter) LoadAccount(address []byte) (vmcommon.AccountHandler, error) {
	for _, a := range ad.Known {
		if verif.BytesEq(a.Addr, address) {
			if (!a.IsSystem || ad.FaultSys) && ad.W.fault("fault.LoadAccount") {
				return nil, ErrFault
			}
			ad.Loaded = append(ad.Loaded, a)
			return a, nil
		}
	}
	if ad.W.fault("fault.LoadAccount") {
		return nil, ErrFault
	}
	a := ad.W.NewAccount("other", address)
	ad.Loaded = append(ad.Loaded, a)
	return a, nil
}

func (ad *AccountsAdapter) SaveAccount(account vmcommon.AccountHandler) error {
	if ad.W.fault("fault.SaveAccount") {
		return ErrFault
	}
	a, ok := account.(*Account)
	if ok {
		ad.Saved = append(ad.Saved, a)
		ad.W.Log = append(ad.W.Log, Write{Acct: a, Kind: "save-account"})
	}
	return nil
}

func (ad *AccountsAdapter) GetExistingAccount(address []byte) (vmcommon.AccountHandler, error) {
	return ad.LoadAccount(address)
}
func (ad *AccountsAdapter) RemoveAccount(_ []byte) error { panic("unused: RemoveAccount") }
func (ad *AccountsAdapter) Commit() ([]byte, error)      { panic("unused: Commit") }
func (ad *AccountsAdapter) JournalLen() int              { panic("unused: JournalLen") }
func (ad *AccountsAdapter) RevertToSnapshot(_ int) error { panic("unused: RevertToSnapshot") }
func (ad *AccountsAdapter) GetNumCheckpoints() uint32    { panic("unused: GetNumCheckpoints") }
func (ad *AccountsAdapter) GetCode(_ []byte) []byte      { panic("unused: GetCode") }
func (ad *AccountsAdapter) RootHash() ([]byte, error)    { panic("unused: RootHash") }
func (ad *AccountsAdapter) RecreateTrie(_ []byte) error  { panic("unused: RecreateTrie") }

// ---------------------------------------------------------------------------------------
// shard function: an uninterpreted function realised as a lazily filled table

type shardEntry struct {
	addr []byte
	id   uint32
}

type Coordinator struct {
	W     *World
	Self  uint32
	table []shardEntry
}

func (c *Coordinator) IsInterfaceNil() bool   { return c == nil }
func (c *Coordinator) NumberOfShards() uint32 { return 2 }
func (c *Coordinator) SelfId() uint32         { return c.Self }

// Set fixes the shard of an address up front.
func (c *Coordinator) Set(addr []byte, id uint32) { c.table = append(c.table, shardEntry{addr, id}) }

func (c *Coordinator) ComputeId(address []byte) uint32 {
	for _, e := range c.table {
		if verif.BytesEq(e.addr, address) {
			return e.id
		}
	}
	k := verif.Choose("shard", 3)
	id := uint32(0)
	if k == 1 {
		id = 1
	} else if k == 2 {
		id = vmcommon.MetachainShardId
	}
	c.table = append(c.table, shardEntry{address, id})
	return id
}

func (c *Coordinator) SameShard(a, b []byte) bool              { return c.ComputeId(a) == c.ComputeId(b) }
func (c *Coordinator) CommunicationIdentifier(_ uint32) string { return "" }

// ---------------------------------------------------------------------------------------
// payability oracle

type PayQuery struct {
	Addr    []byte
	Payable bool
	Err     bool
}

type PayableOracle struct {
	W       *World
	Queries []PayQuery
}

func (p *PayableOracle) IsInterfaceNil() bool { return p == nil }

func (p *PayableOracle) IsPayable(address []byte) (bool, error) {
	for _, q := range p.Queries {
		if verif.BytesEq(q.Addr, address) {
			if q.Err {
				return false, ErrFault
			}
			return q.Payable, nil
		}
	}
	q := PayQuery{Addr: address}
	if verif.Bool("payable.err") {
		q.Err = true
		p.W.FaultHit = true
		p.Queries = append(p.Queries, q)
		return false, ErrFault
	}
	q.Payable = verif.Bool("payable")
	p.Queries = append(p.Queries, q)
	return q.Payable, nil
}

// Asked reports whether the oracle was asked about addr and answered (true, nil).
func (p *PayableOracle) SaidPayable(addr []byte) bool {
	for _, q := range p.Queries {
		if verif.BytesEq(q.Addr, addr) {
			return q.Payable && !q.Err
		}
	}
	return false
}

// ---------------------------------------------------------------------------------------
// epoch notifier

type EpochNotifier struct {
	Handlers []vmcommon.EpochSubscriberHandler
	// NotifyAtRegistration: tell a newly registered handler the current epoch inside
	// RegisterNotifyHandler, as the node's notifier (and the repository's own stub) does.
	NotifyAtRegistration bool
	Current              uint32
}

func (e *EpochNotifier) IsInterfaceNil() bool { return e == nil }
func (e *EpochNotifier) RegisterNotifyHandler(h vmcommon.EpochSubscriberHandler) {
	e.Handlers = append(e.Handlers, h)
	if e.NotifyAtRegistration {
		h.EpochConfirmed(e.Current, 0)
	}
}

// Confirm notifies all handlers.
func (e *EpochNotifier) Confirm(epoch uint32) {
	for _, h := range e.Handlers {
		h.EpochConfirmed(epoch, 0)
	}
}

// ---------------------------------------------------------------------------------------
// roles stub: a symbolic allow/deny answer per (token, role) for harnesses whose subject is not C03

type RolesStub struct {
	W       *World
	Asked   [][]byte
	Allowed []bool
	pos     int
}

// Rewind makes the stub give its recorded answers again (repeated execution, C13).
func (r *RolesStub) Rewind() { r.pos = 0 }

func (r *RolesStub) IsInterfaceNil() bool { return r == nil }
func (r *RolesStub) CheckAllowedToExecute(account vmcommon.UserAccountHandler, tokenID []byte, action []byte) error {
	if account == nil || account.IsInterfaceNil() {
		return builtInFunctions.ErrNilUserAccount
	}
	var ok bool
	if r.pos < len(r.Allowed) {
		ok = r.Allowed[r.pos]
	} else {
		ok = verif.Bool("role.allowed")
		r.Asked = append(r.Asked, action)
		r.Allowed = append(r.Allowed, ok)
	}
	r.pos++
	if !ok {
		return builtInFunctions.ErrActionNotAllowed
	}
	return nil
}

// ---------------------------------------------------------------------------------------
// call input

// Input builds a ContractCallInput. Gas is symbolic; the return-after-error flag and the call
// type are symbolic unless the world's configuration pins them (a harness whose property does
// not depend on them pins them to keep the path count down, and says so in its bounds).
func (w *World) Input(caller, recipient []byte, args [][]byte) *vmcommon.ContractCallInput {
	in := &vmcommon.ContractCallInput{}
	in.CallerAddr = caller
	in.RecipientAddr = recipient
	in.Arguments = args
	in.CallValue = big.NewInt(0)
	in.GasProvided = verif.U64("gas")
	if w.Cfg.GasEnough {
		verif.Assume(in.GasProvided >= 1<<48)
	}
	in.GasLocked = verif.U64("gaslocked")
	if !w.Cfg.NoReturnAfterError {
		in.ReturnCallAfterError = verif.Bool("returnAfterError")
	}
	if !w.Cfg.DirectCallOnly {
		ct := verif.U8("calltype")
		verif.Assume(ct < 4)
		in.CallType = vmcommon.CallType(ct)
	}
	return in
}
