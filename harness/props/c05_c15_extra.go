//go:build verif

package props

import (
	vmcommon "github.com/ElrondNetwork/elrond-vm-common"
	"github.com/ElrondNetwork/elrond-vm-common/builtInFunctions"
	"github.com/ElrondNetwork/elrond-vm-common/data/esdt"
	"github.com/ElrondNetwork/elrond-vm-common/zz_verif/verif"
	"github.com/ElrondNetwork/elrond-vm-common/zz_verif/world"
)

func init() {
	reg("C05_SaveKeyValue", C05_SaveKeyValue)
	reg("C15_SystemAccountDestination", C15_SystemAccountDestination)
	reg("C04_FreezeUnFreezeRoundTrip", C04_FreezeUnFreezeRoundTrip)
	reg("C04_PauseUnPauseRoundTrip", C04_PauseUnPauseRoundTrip)
}

var protectedPrefix = []byte(vmcommon.ElrondProtectedKeyPrefix)

// C05_SaveKeyValue: never touches a key under the protected prefix, is accepted only when a
// non-contract account writes to itself, and writes exactly the listed pairs.
func C05_SaveKeyValue() {
	s := scnSaveKeyValue(Opt{GasEnough: true, NoRAE: true, Direct: true})
	s.Run()
	ok := s.Err == nil
	args := s.In.Arguments
	for _, wr := range s.W.Log {
		verif.Assert("no-write-under-protected-prefix", verif.And(wr.Kind == "kv", !verif.HasPrefix(wr.Key, protectedPrefix)))
		verif.Assert("writes-only-own-account", wr.Acct == s.Snd)
	}
	if ok {
		verif.Assert("self-call-only", verif.BytesEq(s.In.CallerAddr, s.In.RecipientAddr))
		verif.Assert("not-a-contract", !allEq(s.In.CallerAddr, 0, 8, 0))
		// every write is one of the listed pairs
		for _, wr := range s.W.Log {
			listed := false
			for i := 0; i+1 < len(args); i += 2 {
				if len(args[i]) == len(wr.Key) && len(args[i+1]) == len(wr.Val) {
					listed = verif.Or(listed, verif.And(verif.BytesEq(args[i], wr.Key), verif.BytesEq(args[i+1], wr.Val)))
				}
			}
			verif.Assert("write-is-a-listed-pair", listed)
		}
		// every listed key ends up holding the value of the last pair that names it
		for i := 0; i+1 < len(args); i += 2 {
			last := i
			for j := i + 2; j+1 < len(args); j += 2 {
				if len(args[j]) == len(args[i]) && verif.BytesEq(args[j], args[i]) {
					last = j
				}
			}
			c := s.Snd.Find(args[i])
			verif.Assert("listed-key-touched", c != nil)
			if c != nil {
				verif.Assert("listed-key-holds-listed-value", verif.BytesEq(c.Cur, args[last+1]))
			}
		}
		for _, c := range s.Snd.Cells {
			named := false
			for i := 0; i+1 < len(args); i += 2 {
				if len(args[i]) == len(c.Key) {
					named = verif.Or(named, verif.BytesEq(args[i], c.Key))
				}
			}
			verif.Assert("only-listed-keys-touched", named)
		}
		verif.Reach("accepted", true)
		verif.Reach("accepted-noop", len(s.W.Log) == 0)
	} else {
		verif.Reach("rejected-protected", s.Err != builtInFunctions.ErrInvalidArguments)
	}
	verif.ObserveBool("ok", ok)
}

// C15_SystemAccountDestination: an ESDTTransfer whose destination is the system account
// 0xff…ff stores an ESDigitalToken under ELRONDesdt‖token of that account - the key of the
// pause flag (finding F10): IsPaused then reads "not paused" (length != 2) and a later
// ESDTPause overwrites the balance.
func C15_SystemAccountDestination() {
	s := newScn("ESDTTransfer", Opt{GasEnough: true, NoRAE: true, Direct: true, Small: true, NoCall: true, SysDest: true, CheckInv: true})
	s.W.SysDestCall = true
	s.Tok, s.Amt = tokenID("tok"), amount("amt")
	s.Snd = s.W.NewAccount("snd", addr32("snd.addr"))
	s.Dst = s.W.Sys
	s.W.Shards.Set(s.W.Sys.Addr, s.W.Shards.Self)
	s.In = s.W.Input(s.Snd.Addr, s.W.Sys.Addr, [][]byte{s.Tok, s.Amt})
	f, _ := builtInFunctions.NewESDTTransferFunc(1, s.W.Codec, s.W.Pause, s.W.Shards)
	_ = f.SetPayableHandler(s.W.Payable)
	s.Fn = f
	s.Run()
	verif.Reach("accepted", s.Err == nil)
	verif.ObserveBool("ok", s.Err == nil)
}

// C04_FreezeUnFreezeRoundTrip: ESDTFreeze then ESDTUnFreeze by the system contract leaves the
// balance untouched and the account not frozen; while frozen the balance is unchanged too.
func C04_FreezeUnFreezeRoundTrip() {
	w := world.New(world.Config{MetaFieldLen: 1})
	dst := w.NewAccount("dst", addr32("dst.addr"))
	tok := tokenID("tok")
	key := tokenKey(tok)
	freeze, _ := builtInFunctions.NewESDTFreezeWipeFunc(w.Codec, true, false)
	unfreeze, _ := builtInFunctions.NewESDTFreezeWipeFunc(w.Codec, false, false)
	in := w.Input(vmcommon.ESDTSCAddress, dst.Addr, [][]byte{tok})
	_, err := call(freeze, nil, dst, in)
	if err != nil {
		verif.Reach("freeze-rejected", true)
		return
	}
	c := dst.Find(key)
	verif.Assert("entry-touched", c != nil)
	pre := w.Codec.BalanceOf(c.Init)
	mid := w.Codec.Token(c.Cur)
	verif.Assert("frozen-entry-present", mid != nil)
	verif.Assert("frozen-balance-unchanged", mid.Value.Cmp(pre) == 0)
	verif.Assert("frozen-bit-set", verif.And(len(mid.Properties) == 2, mid.Properties[0]&1 == 1))
	_, err = call(unfreeze, nil, dst, in)
	verif.Assert("unfreeze-accepted", err == nil)
	post := w.Codec.Token(c.Cur)
	verif.Assert("balance-restored", w.Codec.BalanceOf(c.Cur).Cmp(pre) == 0)
	if post != nil {
		verif.Assert("not-frozen-after", verif.Or(len(post.Properties) != 2, post.Properties[0]&1 == 0))
		verif.Assert("metadata-untouched", world.MetaEq(post.TokenMetaData, metaOfTok(w, c.Init)))
	} else {
		verif.Assert("removed-only-when-empty", pre.Sign() == 0)
	}
	verif.Reach("roundtrip", true)
	verif.Reach("roundtrip-holder", pre.Sign() > 0)
}

func metaOfTok(w *world.World, buf []byte) *esdt.MetaData {
	t := w.Codec.Token(buf)
	if t == nil {
		return nil
	}
	return t.TokenMetaData
}

// C04_PauseUnPauseRoundTrip: ESDTPause then ESDTUnPause leaves the token not paused, writes only
// the pause flag of the system account, and IsPaused reflects each step.
func C04_PauseUnPauseRoundTrip() {
	w := world.New(world.Config{})
	tok := tokenID("tok")
	key := tokenKey(tok)
	pause, _ := builtInFunctions.NewESDTPauseFunc(w.Accounts, true)
	unpause, _ := builtInFunctions.NewESDTPauseFunc(w.Accounts, false)
	in := w.Input(vmcommon.ESDTSCAddress, vmcommon.SystemAccountAddress, [][]byte{tok})
	_, err := call(pause, nil, nil, in)
	verif.Assert("pause-accepted", err == nil)
	verif.Assert("paused-after-pause", w.Pause.IsPaused(key))
	_, err = call(unpause, nil, nil, in)
	verif.Assert("unpause-accepted", err == nil)
	verif.Assert("not-paused-after-unpause", !w.Pause.IsPaused(key))
	for _, wr := range w.Log {
		if wr.Kind == "kv" {
			verif.Assert("only-pause-flag-written", verif.And(wr.Acct == w.Sys, verif.BytesEq(wr.Key, key), len(wr.Val) == 2))
		}
	}
	verif.Reach("roundtrip", true)
}

func init() {
	reg("C05_MultiTransfer2DestThin", C05_MultiTransfer2DestThin)
}

// C05_MultiTransfer2DestThin: the arrival of a two-item cross-shard multi transfer (items of
// arbitrary kinds and token identifiers, no attached call, thin state) touches only the entries
// of the two named (token, nonce) pairs - the quick-tier slice of C05T_MultiTransfer2Dest.
func C05_MultiTransfer2DestThin() {
	footprintCheck(scnMultiTransfer(Opt{GasEnough: true, NoRAE: true, Direct: true, Small: true, NoPause: true, Split1: true, NoURIs: true,
		NoCall: true, Thin: true, Side: 2, MultiK: 2}))
}
