//go:build verif

package props

import (
	"bytes"
	"encoding/binary"
	"encoding/hex"
	"fmt"
	"sort"
	"strconv"
	"strings"

	"github.com/ElrondNetwork/elrond-vm-common/zz_verif/verif"
)

// Engine self-test: standard-library idioms a maintainer's refactoring may introduce. Each
// harness asserts the library function's contract on symbolic input; `gosmt check S00` runs them.
func init() {
	reg("S00_BytesBuffer", S00_BytesBuffer)
	reg("S00_SortSlice", S00_SortSlice)
	reg("S00_Strings", S00_Strings)
	reg("S00_Strconv", S00_Strconv)
	reg("S00_Binary", S00_Binary)
	reg("S00_BytesFuncs", S00_BytesFuncs)
	reg("S00_Sprintf", S00_Sprintf)
	reg("S00_HexString", S00_HexString)
	reg("S00_CopyAppend", S00_CopyAppend)
	reg("S00_PureLoopSummary", S00_PureLoopSummary)
}

func S00_BytesBuffer() {
	a, b := verif.Bytes("a", 2), verif.Bytes("b", 1)
	var buf bytes.Buffer
	buf.Write(a)
	buf.WriteByte('@')
	buf.WriteString(string(b))
	out := buf.Bytes()
	verif.Assert("len", len(out) == 4)
	verif.Assert("content", verif.And(out[0] == a[0], out[1] == a[1], out[2] == '@', out[3] == b[0]))
	verif.Assert("string", buf.String() == string(out))
	verif.Reach("done", true)
}

func S00_SortSlice() {
	x := []uint8{verif.U8("x0"), verif.U8("x1"), verif.U8("x2")}
	sort.Slice(x, func(i, j int) bool { return x[i] < x[j] })
	verif.Assert("sorted", verif.And(x[0] <= x[1], x[1] <= x[2]))
	verif.Reach("done", true)
}

func S00_Strings() {
	s := string(verif.Bytes("s", 3))
	verif.Assert("hasprefix", strings.HasPrefix("ab"+s, "ab"))
	verif.Assert("trimprefix", strings.TrimPrefix("ab"+s, "ab") == s)
	parts := strings.Split("x@y@z", "@")
	verif.Assert("split", len(parts) == 3)
	verif.Assert("repeat", strings.Repeat("ab", 2) == "abab")
	verif.Assert("contains", strings.Contains("a@b", "@"))
	verif.Assert("index", strings.Index("a@b", "@") == 1)
	verif.Assert("tolower", strings.ToLower("AbC") == "abc")
	verif.Reach("done", true)
}

func S00_Strconv() {
	verif.Assert("itoa", strconv.Itoa(1234) == "1234")
	verif.Assert("formatuint", strconv.FormatUint(255, 16) == "ff")
	n, err := strconv.Atoi("77")
	verif.Assert("atoi", err == nil && n == 77)
	verif.Reach("done", true)
}

func S00_Binary() {
	v := verif.U64("v")
	var b [8]byte
	binary.BigEndian.PutUint64(b[:], v)
	verif.Assert("roundtrip", binary.BigEndian.Uint64(b[:]) == v)
	verif.Assert("msb", b[0] == byte(v>>56))
	var c [4]byte
	binary.LittleEndian.PutUint32(c[:], uint32(v))
	verif.Assert("le", c[0] == byte(v))
	verif.Reach("done", true)
}

func S00_BytesFuncs() {
	a := verif.Bytes("a", 3)
	verif.Assert("equal", bytes.Equal(a, append([]byte{}, a...)))
	verif.Assert("compare", bytes.Compare(a, a) == 0)
	verif.Assert("hasprefix", bytes.HasPrefix(append([]byte("EL"), a...), []byte("EL")))
	t := bytes.TrimLeft([]byte{0, 0, 5}, "\x00")
	verif.Assert("trimleft", len(t) == 1 && t[0] == 5)
	verif.Assert("repeat", len(bytes.Repeat([]byte{1}, 3)) == 3)
	j := bytes.Join([][]byte{{1}, {2}}, []byte{'@'})
	verif.Assert("join", len(j) == 3 && j[1] == '@')
	verif.Assert("contains", bytes.Contains([]byte("a@b"), []byte("@")))
	verif.Reach("done", true)
}

func S00_Sprintf() {
	verif.Assert("sprintf-s", fmt.Sprintf("%s@%s", "ab", "cd") == "ab@cd")
	verif.Assert("sprintf-d", fmt.Sprintf("%d", 42) == "42")
	verif.Assert("sprintf-x", fmt.Sprintf("%x", []byte{0xab, 1}) == "ab01")
	verif.Reach("done", true)
}

func S00_HexString() {
	a := verif.Bytes("a", 2)
	h := hex.EncodeToString(a)
	d, err := hex.DecodeString(h)
	verif.Assert("hex", err == nil && len(d) == 2 && d[0] == a[0] && d[1] == a[1])
	verif.Reach("done", true)
}

func S00_CopyAppend() {
	a := verif.Bytes("a", 2)
	b := make([]byte, 3)
	n := copy(b, a)
	verif.Assert("copy", n == 2 && b[0] == a[0] && b[2] == 0)
	m := map[string]int{}
	m[string(a)]++
	verif.Assert("map", m[string(a)] == 1)
	type k struct{ x, y uint8 }
	mk := map[k]bool{{1, 2}: true}
	verif.Assert("structkey", mk[k{1, 2}])
	verif.Reach("done", true)
}

func allZeros(x []byte) bool {
	for _, b := range x {
		if b != 0 {
			return false
		}
	}
	return true
}

func firstNonZero(x []byte) int {
	for i, b := range x {
		if b != 0 {
			return i
		}
	}
	return -1
}

// S00_PureLoopSummary: loops with data-dependent early exits in pure helpers are summarised
// into one term instead of forking the caller (1 path, not 9 x 9).
func S00_PureLoopSummary() {
	x := verif.Bytes("x", 8)
	z := allZeros(x)
	k := firstNonZero(x)
	verif.Assert("agree", z == (k == -1))
	verif.Assert("index-points-at-nonzero", k == -1 || k >= 0 && k < 8)
	if k >= 0 {
		verif.Assert("found", x[k] != 0)
	}
	verif.Reach("all-zero", z)
	verif.Reach("some-nonzero", !z)
	verif.ObserveBool("z", z)
}
