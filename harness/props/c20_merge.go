//go:build verif

package props

import (
	"math/big"

	vmcommon "github.com/ElrondNetwork/elrond-vm-common"
	"github.com/ElrondNetwork/elrond-vm-common/zz_verif/verif"
)

func init() {
	reg("C20_MergeOutputAccounts", C20_MergeOutputAccounts)
	reg("C20_MergeTwiceDoesNotMutateSource", C20_MergeTwiceDoesNotMutateSource)
	reg("C20_MergeStorageUpdates", C20_MergeStorageUpdates)
}

// updatesOver is a storage-update map over the shared two-key universe: nil map, empty map, {k0},
// {k1}, {k0,k1}; the data of an update is empty (the form in which a deletion is recorded) or
// one arbitrary byte.
func updatesOver(tag string) map[string]*vmcommon.StorageUpdate {
	var m map[string]*vmcommon.StorageUpdate
	c := verif.Choose(tag+".updates", 5)
	if c >= 1 {
		m = map[string]*vmcommon.StorageUpdate{}
	}
	if c == 2 || c == 4 {
		m["k0"] = &vmcommon.StorageUpdate{Offset: []byte("k0"), Data: verif.BytesLen(tag+".upd0.data", 0, 1)}
	}
	if c == 3 || c == 4 {
		m["k1"] = &vmcommon.StorageUpdate{Offset: []byte("k1"), Data: verif.BytesLen(tag+".upd1.data", 0, 1)}
	}
	return m
}

// C20_MergeStorageUpdates: merging storage updates lets the later update win for every key it
// names - also when the later update records a deletion (empty data) - keeps the earlier update
// of every other key, adds no key, and does so through MergeOutputAccounts and through
// MergeStorageUpdates alike.
func C20_MergeStorageUpdates() {
	left := &vmcommon.OutputAccount{StorageUpdates: updatesOver("l")}
	right := &vmcommon.OutputAccount{StorageUpdates: updatesOver("r")}
	var pre0, pre1 *vmcommon.StorageUpdate
	if left.StorageUpdates != nil {
		pre0, pre1 = left.StorageUpdates["k0"], left.StorageUpdates["k1"]
	}
	if verif.Bool("whole-account-merge") {
		left.MergeOutputAccounts(right)
	} else {
		left.MergeStorageUpdates(right)
	}
	verif.Assert("map-present", left.StorageUpdates != nil)
	n := 0
	for _, pair := range []struct {
		k   string
		pre *vmcommon.StorageUpdate
	}{{"k0", pre0}, {"k1", pre1}} {
		var r *vmcommon.StorageUpdate
		if right.StorageUpdates != nil {
			r = right.StorageUpdates[pair.k]
		}
		got := left.StorageUpdates[pair.k]
		if r != nil {
			verif.Assert("later-update-wins", got == r)
			verif.Reach("later-deletion-over-earlier-value", len(r.Data) == 0 && pair.pre != nil && len(pair.pre.Data) == 1)
		} else {
			verif.Assert("earlier-update-kept", got == pair.pre)
		}
		if got != nil {
			n++
		}
	}
	verif.Assert("no-key-added", len(left.StorageUpdates) == n)
	verif.Reach("merged", true)
}

// arbAccount is an arbitrary output account over the generated domain: nil / negative
// deltas, 0..2 storage updates over a 2-key universe (so maps overlap), 0..2 transfers.
func arbAccount(tag string) *vmcommon.OutputAccount {
	a := &vmcommon.OutputAccount{}
	a.Address = verif.BytesLen(tag+".addr", 0, 1)
	a.Nonce = verif.U64(tag + ".nonce")
	if verif.Bool(tag + ".hasDelta") {
		a.BalanceDelta = verif.Int(tag + ".delta")
	}
	a.GasUsed = verif.U64(tag + ".gasused")
	// the optional fields that are merged by plain overwrite travel together (one switch)
	if verif.Bool(tag + ".extras") {
		a.Balance = verif.Int(tag + ".balance")
		a.Code = verif.Bytes(tag+".code", 1)
		a.CodeMetadata = verif.Bytes(tag+".codemeta", 1)
		a.CodeDeployerAddress = verif.Bytes(tag+".deployer", 1)
	}
	// storage updates: nil map, empty map, {k0}, {k0,k1} over a shared 2-key universe
	switch verif.Choose(tag+".updates", 4) {
	case 1:
		a.StorageUpdates = map[string]*vmcommon.StorageUpdate{}
	case 2:
		a.StorageUpdates = map[string]*vmcommon.StorageUpdate{"k0": {Offset: []byte("k0"), Data: verif.Bytes(tag+".upd.data", 1)}}
	case 3:
		a.StorageUpdates = map[string]*vmcommon.StorageUpdate{
			"k0": {Offset: []byte("k0"), Data: verif.Bytes(tag+".upd.data", 1)},
			"k1": {Offset: []byte("k1"), Data: verif.Bytes(tag+".upd.data", 1)}}
	}
	n := verif.Choose(tag+".ntransfers", 3)
	for i := 0; i < n; i++ {
		a.OutputTransfers = append(a.OutputTransfers, vmcommon.OutputTransfer{Value: verif.Int(tag + ".tr.value"), GasLimit: verif.U64(tag + ".tr.gas"), Data: verif.Bytes(tag+".tr.data", 1)})
	}
	return a
}

func deltaOf(x *big.Int) *big.Int {
	if x == nil {
		return big.NewInt(0)
	}
	return x
}

// C20_MergeOutputAccounts: delta adds, nonce max, later update wins, only new transfers appended.
func C20_MergeOutputAccounts() {
	left, right := arbAccount("l"), arbAccount("r")
	preDelta := new(big.Int).Set(deltaOf(left.BalanceDelta))
	preNonce := left.Nonce
	preTransfers := len(left.OutputTransfers)
	preAddr := left.Address
	var preUpd0, preUpd1 *vmcommon.StorageUpdate
	if left.StorageUpdates != nil {
		preUpd0, preUpd1 = left.StorageUpdates["k0"], left.StorageUpdates["k1"]
	}
	left.MergeOutputAccounts(right)
	verif.Assert("delta-adds", left.BalanceDelta.Cmp(new(big.Int).Add(preDelta, deltaOf(right.BalanceDelta))) == 0)
	wantNonce := preNonce
	if right.Nonce > preNonce {
		wantNonce = right.Nonce
	}
	verif.Assert("nonce-max", left.Nonce == wantNonce)
	if len(right.Address) != 0 {
		verif.Assert("address-taken", verif.BytesEq(left.Address, right.Address))
	} else {
		verif.Assert("address-kept", verif.BytesEq(left.Address, preAddr))
	}
	// later update wins, others kept
	for _, pair := range []struct {
		k   string
		pre *vmcommon.StorageUpdate
	}{{"k0", preUpd0}, {"k1", preUpd1}} {
		var r *vmcommon.StorageUpdate
		if right.StorageUpdates != nil {
			r = right.StorageUpdates[pair.k]
		}
		got := left.StorageUpdates[pair.k]
		if r != nil {
			verif.Assert("later-update-wins", got == r)
		} else {
			verif.Assert("earlier-update-kept", got == pair.pre)
		}
	}
	// only the new transfers are appended
	wantLen := preTransfers
	if len(right.OutputTransfers) > preTransfers {
		wantLen = len(right.OutputTransfers)
	}
	verif.Assert("transfers-length", len(left.OutputTransfers) == wantLen)
	for i := preTransfers; i < wantLen; i++ {
		verif.Assert("new-transfer-appended", verif.And(left.OutputTransfers[i].GasLimit == right.OutputTransfers[i].GasLimit,
			verif.BytesEq(left.OutputTransfers[i].Data, right.OutputTransfers[i].Data)))
	}
	verif.Assert("gas-used-taken", left.GasUsed == right.GasUsed)
	verif.Reach("appended", wantLen > preTransfers)
	verif.Reach("negative-delta", deltaOf(right.BalanceDelta).Sign() < 0)
	verif.ObserveU64("nonce", left.Nonce)
}

// C20_MergeTwiceDoesNotMutateSource: the account merged in is never mutated, not even through a
// later merge into the same result (engine-side write monitor over the source's object graph
// plus value comparison of its delta).
func C20_MergeTwiceDoesNotMutateSource() {
	res := &vmcommon.OutputAccount{}
	if verif.Bool("res.hasDelta") {
		res.BalanceDelta = verif.Int("res.delta")
	}
	first, second := arbAccount("a"), arbAccount("b")
	firstDelta := new(big.Int).Set(deltaOf(first.BalanceDelta))
	firstBalance := new(big.Int).Set(deltaOf(first.Balance))
	hadDelta := first.BalanceDelta != nil
	nTr := len(first.OutputTransfers)
	verif.WatchWrites(first, "merged-in-account")
	res.MergeOutputAccounts(first)
	res.MergeOutputAccounts(second)
	verif.WatchOn(false)
	verif.Assert("source-delta-untouched", verif.And((first.BalanceDelta != nil) == hadDelta, deltaOf(first.BalanceDelta).Cmp(firstDelta) == 0))
	verif.Assert("source-balance-untouched", deltaOf(first.Balance).Cmp(firstBalance) == 0)
	verif.Assert("source-transfers-untouched", len(first.OutputTransfers) == nTr)
	verif.Reach("merged-twice", true)
}
