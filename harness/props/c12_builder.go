//go:build verif

package props

import (
	"math/big"

	vmcommon "github.com/ElrondNetwork/elrond-vm-common"
	"github.com/ElrondNetwork/elrond-vm-common/parsers"
	"github.com/ElrondNetwork/elrond-vm-common/txDataBuilder"
	"github.com/ElrondNetwork/elrond-vm-common/zz_verif/verif"
	"github.com/ElrondNetwork/elrond-vm-common/zz_verif/world"
)

func init() {
	reg("C12_BuilderTyped", C12_BuilderTyped)
	reg("C12_BuilderCompound", C12_BuilderCompound)
	reg("C12_BuilderState", C12_BuilderState)
}

// magnitude is |v| as a machine word (MinInt64 gives 2^63, which is its magnitude).
func magnitude(v int64) uint64 {
	if v < 0 {
		return -uint64(v)
	}
	return uint64(v)
}

// wordOf reads at most eight big-endian bytes as a machine word.
func wordOf(b []byte) uint64 {
	var u uint64
	for _, c := range b {
		u = u<<8 | uint64(c)
	}
	return u
}

// isMinimalBE: b is the minimal big-endian form of m (no leading zero byte; empty for zero).
func isMinimalBE(b []byte, m uint64) bool {
	if len(b) > 8 {
		return false
	}
	lead := true
	if len(b) > 0 {
		lead = b[0] != 0
	}
	return verif.And(lead, wordOf(b) == m)
}

// elem is what an adder is documented to append: raw bytes, or the minimal big-endian magnitude
// of an integer.
type elem struct {
	b     []byte
	isInt bool
	m     uint64
}

func raw(b []byte) elem     { return elem{b: b} }
func integer(m uint64) elem { return elem{isInt: true, m: m} }

func checkElems(got [][]byte, want []elem) {
	verif.Assert("same-arg-count", len(got) == len(want))
	if len(got) != len(want) {
		return
	}
	for k := range want {
		if want[k].isInt {
			verif.Assert("integer-element-is-minimal-big-endian", isMinimalBE(got[k], want[k].m))
		} else {
			verif.Assert("element-bytes", verif.BytesEq(got[k], want[k].b))
		}
	}
}

// C12_BuilderTyped: every typed adder of the tx-data builder (Byte, Str, Int, Int64, Bool, True,
// False, BigInt) produces an element that the call-arguments parser hands back as exactly the
// bytes that adder documents: the byte, the string's bytes, the minimal big-endian magnitude of
// the integer, "true"/"false".
func C12_BuilderTyped() {
	fn := verif.BytesLen("fn", 1, 2)
	verif.Assume(noAt(fn))
	b := txDataBuilder.NewBuilder().Func(string(fn))
	var want []elem
	n := 1
	if verif.Thorough() {
		n = 1 + verif.Choose("nelems", 2)
	}
	for k := 0; k < n; k++ {
		switch verif.Choose("kind", 8) {
		case 0:
			v := verif.U8("byte")
			b = b.Byte(v)
			want = append(want, raw([]byte{v}))
		case 1:
			s := verif.BytesLen("str", 0, 2)
			b = b.Str(string(s))
			want = append(want, raw(s))
		case 2:
			v := int64(verif.U64("int"))
			b = b.Int(int(v))
			want = append(want, integer(magnitude(v)))
		case 3:
			v := int64(verif.U64("int64"))
			b = b.Int64(v)
			want = append(want, integer(magnitude(v)))
		case 4:
			c := verif.Bool("bool")
			b = b.Bool(c)
			if c {
				want = append(want, raw([]byte("true")))
			} else {
				want = append(want, raw([]byte("false")))
			}
		case 5:
			b = b.True()
			want = append(want, raw([]byte("true")))
		case 6:
			b = b.False()
			want = append(want, raw([]byte("false")))
		default:
			xb := verif.BytesLen("big", 0, 3)
			x := num(xb)
			if verif.Bool("big.negative") {
				x = new(big.Int).Neg(x)
			}
			b = b.BigInt(x)
			want = append(want, integer(wordOf(xb)))
		}
	}
	data := b.ToString()
	f, got, err := parsers.NewCallArgsParser().ParseData(data)
	verif.Assert("parses", err == nil)
	verif.Assert("same-function", f == string(fn))
	checkElems(got, want)
	verif.Assert("bytes-equals-string", string(b.ToBytes()) == data)
	verif.Assert("not-nil", !b.IsInterfaceNil())
	verif.Reach("parsed", err == nil)
	if verif.Thorough() {
		verif.Reach("two-elements", n == 2)
	}
	verif.ObserveStr("data", data)
}

// C12_BuilderCompound: the composite adders (IssueESDT, TransferESDT, TransferESDTNFT, BurnESDT and
// the Can* properties) produce data that parses into the protocol's function name and the
// documented argument list; the ESDT-transfer parser reads back the token and value a
// TransferESDT string was built from.
func C12_BuilderCompound() {
	tok := verif.BytesLen("tok", 0, 2)
	value := int64(verif.U64("value"))
	b := txDataBuilder.NewBuilder()
	var wantF string
	var want []elem
	kind := verif.Choose("kind", 5)
	switch kind {
	case 0:
		tick := verif.BytesLen("ticker", 0, 2)
		dec := verif.U8("decimals")
		b = b.IssueESDT(string(tok), string(tick), value, dec)
		wantF, want = "issue", []elem{raw(tok), raw(tick), integer(magnitude(value)), raw([]byte{dec})}
	case 1:
		b = b.TransferESDT(string(tok), value)
		wantF, want = vmcommon.BuiltInFunctionESDTTransfer, []elem{raw(tok), integer(magnitude(value))}
	case 2:
		nonce := int64(verif.U64("nonce"))
		b = b.TransferESDTNFT(string(tok), int(nonce), value)
		wantF, want = vmcommon.BuiltInFunctionESDTNFTTransfer, []elem{raw(tok), integer(magnitude(nonce)), integer(magnitude(value))}
	case 3:
		b = b.BurnESDT(string(tok), value)
		wantF, want = vmcommon.BuiltInFunctionESDTBurn, []elem{raw(tok), integer(magnitude(value))}
	default:
		prop := verif.Bool("prop")
		pv := []byte("false")
		if prop {
			pv = []byte("true")
		}
		b = b.Func("f")
		var name string
		switch verif.Choose("can", 7) {
		case 0:
			b, name = b.CanFreeze(prop), "canFreeze"
		case 1:
			b, name = b.CanWipe(prop), "canWipe"
		case 2:
			b, name = b.CanPause(prop), "canPause"
		case 3:
			b, name = b.CanMint(prop), "canMint"
		case 4:
			b, name = b.CanBurn(prop), "canBurn"
		case 5:
			b, name = b.CanTransferNFTCreateRole(prop), "canTransferNFTCreateRole"
		default:
			b, name = b.CanAddSpecialRoles(prop), "canAddSpecialRoles"
		}
		wantF, want = "f", []elem{raw([]byte(name)), raw(pv)}
	}
	data := b.ToString()
	f, got, err := parsers.NewCallArgsParser().ParseData(data)
	verif.Assert("parses", err == nil)
	verif.Assert("protocol-function-name", f == wantF)
	checkElems(got, want)
	if err != nil || len(got) != len(want) {
		return
	}
	if kind == 1 {
		w := world.New(world.Config{})
		p, _ := parsers.NewESDTTransferParser(w.Codec)
		snd, rcv := addr32("snd"), addr32("rcv")
		res, perr := p.ParseESDTTransfers(snd, rcv, f, got)
		verif.Assert("transfer-parser-accepts-built-data", verif.And(perr == nil, res != nil))
		if res != nil {
			verif.Assert("one-transfer", len(res.ESDTTransfers) == 1)
			if len(res.ESDTTransfers) == 1 {
				t := res.ESDTTransfers[0]
				verif.Assert("reported-token", verif.BytesEq(t.ESDTTokenName, tok))
				verif.Assert("reported-value", verif.And(t.ESDTValue.IsUint64(), t.ESDTValue.Uint64() == magnitude(value)))
				verif.Assert("reported-nonce-zero", t.ESDTTokenNonce == 0)
				verif.Assert("reported-receiver", verif.BytesEq(res.RcvAddr, rcv))
			}
		}
		verif.Reach("transfer-parsed", res != nil)
	}
	verif.Reach("issue", kind == 0)
	verif.Reach("can", kind == 4)
	verif.ObserveStr("data", data)
}

// C12_BuilderState: GetLast / SetLast / Clear keep the builder's element list consistent: the
// last element is what was appended or set last, SetLast on an empty builder creates the single
// element, and a cleared builder behaves like a new one.
func C12_BuilderState() {
	b := txDataBuilder.NewBuilder().Func("f")
	verif.Assert("empty-last", b.GetLast() == "")
	n := verif.Choose("n", 3)
	var args [][]byte
	for i := 0; i < n; i++ {
		a := verif.BytesLen("arg", 0, 1)
		args = append(args, a)
		b = b.Bytes(a)
	}
	if n > 0 {
		_, got, err := parsers.NewCallArgsParser().ParseData("x@" + b.GetLast())
		verif.Assert("last-is-last-appended", verif.And(err == nil, len(got) == 1))
		if len(got) == 1 {
			verif.Assert("last-is-last-appended", verif.BytesEq(got[0], args[n-1]))
		}
	}
	repl := verif.BytesLen("repl", 0, 1)
	b.SetLast(txDataBuilder.NewBuilder().Bytes(repl).GetLast())
	if n == 0 {
		args = [][]byte{repl}
	} else {
		args[n-1] = repl
	}
	f, got, err := parsers.NewCallArgsParser().ParseData(b.ToString())
	verif.Assert("parses-after-setlast", verif.And(err == nil, f == "f"))
	verif.Assert("count-after-setlast", len(got) == len(args))
	if len(got) == len(args) {
		for i := range args {
			verif.Assert("args-after-setlast", verif.BytesEq(got[i], args[i]))
		}
	}
	b.Clear()
	verif.Assert("cleared-string-empty", b.ToString() == "")
	verif.Assert("cleared-last-empty", b.GetLast() == "")
	a2 := verif.BytesLen("arg2", 0, 1)
	f2, got2, err2 := parsers.NewCallArgsParser().ParseData(b.Func("g").Bytes(a2).ToString())
	verif.Assert("reused-like-new", verif.And(err2 == nil, f2 == "g", len(got2) == 1))
	if len(got2) == 1 {
		verif.Assert("reused-like-new", verif.BytesEq(got2[0], a2))
	}
	verif.Reach("two-elements", n == 2)
	verif.Reach("setlast-on-empty", n == 0)
}
