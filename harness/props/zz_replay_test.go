//go:build verif

package props

import (
	"encoding/json"
	"os"
	"testing"

	"github.com/ElrondNetwork/elrond-vm-common/zz_verif/verif"
)

type job struct {
	Harness  string        `json:"harness"`
	Tape     []verif.Entry `json:"tape"`
	Thorough bool          `json:"thorough"`
}

// TestVerifReplay runs harnesses natively against tapes produced from solver models.
func TestVerifReplay(t *testing.T) {
	jf := os.Getenv("VERIF_JOBS")
	if jf == "" {
		t.Skip("no VERIF_JOBS")
	}
	b, err := os.ReadFile(jf)
	if err != nil {
		t.Fatal(err)
	}
	var jobs []job
	if err := json.Unmarshal(b, &jobs); err != nil {
		t.Fatal(err)
	}
	outs := make([]verif.Outcome, 0, len(jobs))
	for _, j := range jobs {
		h, ok := Harnesses[j.Harness]
		if !ok {
			outs = append(outs, verif.Outcome{Harness: j.Harness, TapeError: "unknown harness (not registered)"})
			continue
		}
		resetGlobals()
		outs = append(outs, verif.Run(j.Harness, h, j.Tape, j.Thorough))
	}
	ob, _ := json.Marshal(outs)
	if err := os.WriteFile(os.Getenv("VERIF_OUT"), ob, 0o644); err != nil {
		t.Fatal(err)
	}
}
