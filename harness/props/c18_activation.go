//go:build verif

package props

import (
	vmcommon "github.com/ElrondNetwork/elrond-vm-common"
	"github.com/ElrondNetwork/elrond-vm-common/builtInFunctions"
	"github.com/ElrondNetwork/elrond-vm-common/zz_verif/verif"
	"github.com/ElrondNetwork/elrond-vm-common/zz_verif/world"
)

func init() {
	reg("C18_ActivationGated", C18_ActivationGated)
	reg("C18_ActivationAtRegistration", C18_ActivationAtRegistration)
	reg("C18_AlwaysActive", C18_AlwaysActive)
}

// C18_ActivationGated: for each of the three epoch-gated functions, from an arbitrary
// reachable flag state, after any notification the function is active exactly when the
// confirmed epoch is >= the activation epoch (one step from an arbitrary state covers every
// sequence of notifications, including regressions and repeats).
func C18_ActivationGated() {
	w := world.New(world.Config{})
	act := verif.U32("activation")
	var f vmcommon.BuiltinFunction
	base := vmcommon.BaseOperationCost{}
	roles := &world.RolesStub{W: w}
	switch verif.Choose("which", 3) {
	case 0:
		f, _ = builtInFunctions.NewESDTNFTAddUriFunc(1, base, w.Codec, w.Pause, roles, act, w.Epochs)
	case 1:
		f, _ = builtInFunctions.NewESDTNFTUpdateAttributesFunc(1, base, w.Codec, w.Pause, roles, act, w.Epochs)
	default:
		f, _ = builtInFunctions.NewESDTNFTMultiTransferFunc(1, w.Codec, w.Pause, w.Accounts, w.Shards, base, act, w.Epochs)
	}
	verif.Assert("registered-with-notifier", len(w.Epochs.Handlers) == 1)
	// arbitrary reachable prior state: never notified, or notified with an arbitrary epoch
	if verif.Bool("prior.notified") {
		w.Epochs.Confirm(verif.U32("e0"))
		if verif.Bool("prior.twice") {
			w.Epochs.Confirm(verif.U32("e00"))
		}
	} else {
		verif.Assert("inactive-before-first-notification", !f.IsActive())
	}
	wasActive := f.IsActive()
	e := verif.U32("e")
	w.Epochs.Confirm(e)
	verif.Assert("active-iff-epoch-reached", f.IsActive() == (e >= act))
	// repeat is idempotent
	w.Epochs.Confirm(e)
	verif.Assert("repeat-idempotent", f.IsActive() == (e >= act))
	verif.Reach("activated", verif.And(!wasActive, f.IsActive()))
	verif.Reach("deactivated-by-regression", verif.And(wasActive, !f.IsActive()))
	verif.Reach("boundary", e == act)
	verif.ObserveBool("active", f.IsActive())
}

// C18_ActivationAtRegistration: a notifier that tells a handler the current epoch at the moment it
// registers (the node's notifier does) is a notification like any other: right after
// construction the function is active exactly when that epoch is >= its activation epoch.
func C18_ActivationAtRegistration() {
	w := world.New(world.Config{})
	act := verif.U32("activation")
	w.Epochs.NotifyAtRegistration = true
	w.Epochs.Current = verif.U32("epoch.at.registration")
	var f vmcommon.BuiltinFunction
	base := vmcommon.BaseOperationCost{}
	roles := &world.RolesStub{W: w}
	switch verif.Choose("which", 3) {
	case 0:
		f, _ = builtInFunctions.NewESDTNFTAddUriFunc(1, base, w.Codec, w.Pause, roles, act, w.Epochs)
	case 1:
		f, _ = builtInFunctions.NewESDTNFTUpdateAttributesFunc(1, base, w.Codec, w.Pause, roles, act, w.Epochs)
	default:
		f, _ = builtInFunctions.NewESDTNFTMultiTransferFunc(1, w.Codec, w.Pause, w.Accounts, w.Shards, base, act, w.Epochs)
	}
	verif.Assert("active-iff-registration-epoch-reached", f.IsActive() == (w.Epochs.Current >= act))
	e := verif.U32("e")
	w.Epochs.Confirm(e)
	verif.Assert("active-iff-epoch-reached", f.IsActive() == (e >= act))
	verif.Reach("active-at-registration", w.Epochs.Current >= act)
	verif.Reach("inactive-at-registration", w.Epochs.Current < act)
}

// C18_AlwaysActive: every other function reports active regardless of notifications.
func C18_AlwaysActive() {
	w := world.New(world.Config{})
	roles := &world.RolesStub{W: w}
	base := vmcommon.BaseOperationCost{}
	var fs []vmcommon.BuiltinFunction
	add := func(f vmcommon.BuiltinFunction) { fs = append(fs, f) }
	add(builtInFunctions.NewClaimDeveloperRewardsFunc(1))
	add(builtInFunctions.NewChangeOwnerAddressFunc(1))
	sun, _ := builtInFunctions.NewSaveUserNameFunc(1, map[string]struct{}{}, false)
	add(sun)
	skv, _ := builtInFunctions.NewSaveKeyValueStorageFunc(base, 1)
	add(skv)
	p1, _ := builtInFunctions.NewESDTPauseFunc(w.Accounts, true)
	add(p1)
	p2, _ := builtInFunctions.NewESDTPauseFunc(w.Accounts, false)
	add(p2)
	tr, _ := builtInFunctions.NewESDTTransferFunc(1, w.Codec, w.Pause, w.Shards)
	add(tr)
	bu, _ := builtInFunctions.NewESDTBurnFunc(1, w.Codec, w.Pause)
	add(bu)
	for _, fw := range [][2]bool{{true, false}, {false, false}, {false, true}} {
		x, _ := builtInFunctions.NewESDTFreezeWipeFunc(w.Codec, fw[0], fw[1])
		add(x)
	}
	r1, _ := builtInFunctions.NewESDTRolesFunc(w.Codec, true)
	add(r1)
	r2, _ := builtInFunctions.NewESDTRolesFunc(w.Codec, false)
	add(r2)
	lb, _ := builtInFunctions.NewESDTLocalBurnFunc(1, w.Codec, w.Pause, roles)
	add(lb)
	lm, _ := builtInFunctions.NewESDTLocalMintFunc(1, w.Codec, w.Pause, roles)
	add(lm)
	aq, _ := builtInFunctions.NewESDTNFTAddQuantityFunc(1, w.Codec, w.Pause, roles)
	add(aq)
	nb, _ := builtInFunctions.NewESDTNFTBurnFunc(1, w.Codec, w.Pause, roles)
	add(nb)
	nc, _ := builtInFunctions.NewESDTNFTCreateFunc(1, base, w.Codec, w.Pause, roles)
	add(nc)
	nt, _ := builtInFunctions.NewESDTNFTTransferFunc(1, w.Codec, w.Pause, w.Accounts, w.Shards, base)
	add(nt)
	rt, _ := builtInFunctions.NewESDTNFTCreateRoleTransfer(w.Codec, w.Accounts, w.Shards)
	add(rt)
	verif.Assert("twenty-always-active", len(fs) == 20)
	for _, f := range fs {
		verif.Assert("constructed", f != nil)
		verif.Assert("active", f.IsActive())
	}
	verif.Assert("not-registered-with-notifier", len(w.Epochs.Handlers) == 0)
	verif.Reach("done", true)
}
