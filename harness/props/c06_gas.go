//go:build verif

package props

import (
	"github.com/ElrondNetwork/elrond-vm-common/zz_verif/verif"
)

// forwarded sums the gas limits of all emitted output transfers; wrapped reports a carry.
func forwarded(s *Scn) (sum uint64, wrapped bool) {
	for _, oa := range s.Out.OutputAccounts {
		for _, ot := range oa.OutputTransfers {
			n := sum + ot.GasLimit
			wrapped = verif.Or(wrapped, n < sum)
			sum = n
		}
	}
	return
}

// gasCheck is C06: a successful result never carries more gas than was provided, and an
// under-funded call fails or consumes everything.
func gasCheck(s *Scn) {
	s.Run()
	if s.Err != nil {
		verif.Reach("rejected", true)
		return
	}
	verif.Assert("result-shape", s.Out != nil)
	fwd, wrapped := forwarded(s)
	total := s.Out.GasRemaining + fwd
	wrapped = verif.Or(wrapped, total < fwd)
	verif.Assert("no-gas-created", verif.And(!wrapped, total <= s.In.GasProvided))
	if s.ChargeOK {
		verif.Assert("underfunded-fails-or-consumes-all", verif.Implies(s.In.GasProvided < s.Charge, total == 0))
	}
	verif.Reach("success", true)
	verif.ObserveU64("gasRemaining", s.Out.GasRemaining)
	verif.ObserveU64("forwarded", fwd)
}

// faultCheck is C17: a failing dependency is never reported as success.
func faultCheck(s *Scn) {
	s.Run()
	if s.W.FaultHit {
		verif.Assert("fault-propagates", verif.And(s.Err != nil, s.Out == nil))
		verif.Reach("fault-hit", true)
	} else {
		verif.Reach("no-fault", true)
	}
	verif.ObserveBool("ok", s.Err == nil)
}
