//go:build verif

package props

import (
	"math/big"

	vmcommon "github.com/ElrondNetwork/elrond-vm-common"
	"github.com/ElrondNetwork/elrond-vm-common/builtInFunctions"
	"github.com/ElrondNetwork/elrond-vm-common/data/esdt"
	"github.com/ElrondNetwork/elrond-vm-common/parsers"
	"github.com/ElrondNetwork/elrond-vm-common/zz_verif/verif"
	"github.com/ElrondNetwork/elrond-vm-common/zz_verif/world"
)

// item is one (token, nonce, quantity) a transfer input lists, with the key the code derives.
type item struct {
	tok, nonceB []byte
	qty         *big.Int
	key         []byte
}

// itemsOf lists the items of a sender-side transfer input.
func itemsOf(s *Scn) []item {
	args := s.In.Arguments
	var out []item
	switch s.Name {
	case "ESDTTransfer":
		out = append(out, item{tok: args[0], qty: num(args[1]), key: tokenKey(args[0])})
	case "ESDTNFTTransfer":
		out = append(out, item{tok: args[0], nonceB: args[1], qty: num(args[2]), key: nftKey(args[0], args[1])})
	case "MultiESDTNFTTransfer":
		n := int(args[1][0])
		for i := 0; i < n; i++ {
			b := 2 + 3*i
			out = append(out, item{tok: args[b], nonceB: args[b+1], qty: num(args[b+2]), key: nftKey(args[b], args[b+1])})
		}
	}
	return out
}

// sumFor aggregates the quantities of all items that name the same key as items[i].
func sumFor(items []item, i int) *big.Int {
	sum := big.NewInt(0)
	for j := range items {
		if len(items[j].key) != len(items[i].key) {
			continue
		}
		same := verif.BytesEq(items[j].key, items[i].key)
		sum = new(big.Int).Add(sum, verif.IteInt(same, items[j].qty, big.NewInt(0)))
	}
	return sum
}

// message is an in-flight transfer: what the destination shard will execute.
type message struct {
	present bool
	fn      string
	args    [][]byte
	gas     uint64
	locked  uint64
	ct      vmcommon.CallType
	sender  []byte
	dest    []byte
}

// emitted extracts and parses (with the real call-arguments parser) the output transfer
// addressed to dest; C10(a): the data string parses into what was encoded.
func emitted(s *Scn, dest []byte) message {
	m := message{dest: dest}
	if s.Out == nil {
		return m
	}
	oa, ok := s.Out.OutputAccounts[string(dest)]
	if !ok || len(oa.OutputTransfers) == 0 {
		return m
	}
	ot := oa.OutputTransfers[0]
	if len(ot.Data) == 0 {
		return m
	}
	fn, args, err := parsers.NewCallArgsParser().ParseData(string(ot.Data))
	verif.Assert("emitted-data-parses", err == nil)
	m.present, m.fn, m.args = true, fn, args
	m.gas, m.locked, m.ct, m.sender = ot.GasLimit, ot.GasLocked, ot.CallType, ot.SenderAddress
	return m
}

// sendCheck runs the sender side and asserts the send step of conservation. It returns the
// in-flight message when the destination lives on another shard.
func sendCheck(s *Scn) (message, bool) {
	s.Run()
	if s.Err != nil {
		verif.Reach("send-rejected", true)
		return message{}, false
	}
	items := itemsOf(s)
	var destAcct *world.Account
	if s.Name == "ESDTTransfer" {
		destAcct = s.Dst
	} else if s.W.Shards.ComputeId(s.DstAddr) == s.W.Shards.Self {
		// the code loads the destination account exactly when it lives on the executing shard
		destAcct = s.acctAt(s.DstAddr)
	}
	aliased := verif.Or(aliasedRead(s, s.Snd), aliasedRead(s, destAcct))
	for i := range items {
		sum := sumFor(items, i)
		if s.Snd != nil && s.Snd != destAcct {
			pre, post := prePost(s.W, s.Snd, items[i].key)
			verif.AssertExcept("sender-debited-exactly", post.Cmp(new(big.Int).Sub(pre, sum)) == 0, "F3", aliased)
			verif.Assert("sender-nonnegative", post.Sign() >= 0)
		}
		if destAcct != nil && s.Snd != destAcct {
			pre, post := prePost(s.W, destAcct, items[i].key)
			verif.AssertExcept("destination-credited-exactly", post.Cmp(new(big.Int).Add(pre, sum)) == 0, "F3", aliased)
		}
		if destAcct != nil && s.Snd == destAcct {
			pre, post := prePost(s.W, destAcct, items[i].key)
			verif.AssertExcept("self-transfer-neutral", post.Cmp(pre) == 0, "F3", aliased)
		}
	}
	fp := s.footprint()
	for _, wr := range s.W.Log {
		if wr.Kind == "kv" {
			verif.AssertExcept("no-other-balance-written", inFootprint(fp, wr), "F3", aliased)
		}
	}
	verif.Reach("send-ok", true)
	if !s.O.CrossOnly && s.O.Presence != 2 {
		verif.Reach("send-same-shard", destAcct != nil)
	}
	if destAcct != nil {
		return message{}, false
	}
	verif.Reach("send-cross-shard", true)
	// the in-flight message: for a plain user ESDTTransfer it is the user's own transaction
	var m message
	if s.Name == "ESDTTransfer" {
		m = emitted(s, s.In.RecipientAddr)
		if !m.present {
			m = message{present: true, fn: vmcommon.BuiltInFunctionESDTTransfer, args: s.In.Arguments, gas: s.In.GasProvided,
				locked: s.In.GasLocked, ct: s.In.CallType, sender: s.In.CallerAddr, dest: s.In.RecipientAddr}
		}
	} else {
		m = emitted(s, s.DstAddr)
		verif.Assert("cross-shard-message-emitted", m.present)
	}
	if !m.present {
		return m, false
	}
	// the message carries exactly what was debited
	switch s.Name {
	case "ESDTTransfer":
		verif.Assert("message-function", m.fn == vmcommon.BuiltInFunctionESDTTransfer)
		verif.Assert("message-token", verif.BytesEq(m.args[0], items[0].tok))
		verif.Assert("message-quantity", num(m.args[1]).Cmp(items[0].qty) == 0)
	case "ESDTNFTTransfer":
		verif.Assert("message-function", m.fn == vmcommon.BuiltInFunctionESDTNFTTransfer)
		verif.Assert("message-arity", len(m.args) >= 4)
		verif.Assert("message-token", verif.BytesEq(m.args[0], items[0].tok))
		t := s.W.Codec.Token(m.args[3])
		verif.Assert("message-payload-decodes", verif.And(t != nil, t.Value != nil, t.TokenMetaData != nil))
		verif.Assert("message-quantity", t.Value.Cmp(items[0].qty) == 0)
		verif.AssertExcept("message-nonce", t.TokenMetaData.Nonce == nonceOf(items[0].nonceB), "F3", aliased)
	case "MultiESDTNFTTransfer":
		verif.Assert("message-function", m.fn == vmcommon.BuiltInFunctionMultiESDTNFTTransfer)
		verif.Assert("message-arity", len(m.args) >= 1+3*len(items))
		verif.Assert("message-count", num(m.args[0]).Cmp(big.NewInt(int64(len(items)))) == 0)
		for i := range items {
			b := 1 + 3*i
			verif.Assert("message-token", verif.BytesEq(m.args[b], items[i].tok))
			n := nonceOf(m.args[b+1])
			verif.AssertExcept("message-nonce", n == nonceOf(items[i].nonceB), "F3", aliased)
			if nonceOf(items[i].nonceB) == 0 {
				verif.AssertExcept("message-quantity", num(m.args[b+2]).Cmp(items[i].qty) == 0, "F3", aliased)
			} else {
				t := s.W.Codec.Token(m.args[b+2])
				verif.AssertExcept("message-payload-decodes", verif.And(t != nil, t.Value != nil), "F3", aliased)
				if t != nil && t.Value != nil {
					verif.AssertExcept("message-quantity", t.Value.Cmp(items[i].qty) == 0, "F3", aliased)
				}
			}
		}
	}
	return m, true
}

// carried lists what a message credits at its destination: (key, quantity) per item.
func carried(w *world.World, m message) []item {
	var out []item
	switch m.fn {
	case vmcommon.BuiltInFunctionESDTTransfer:
		out = append(out, item{tok: m.args[0], qty: num(m.args[1]), key: tokenKey(m.args[0])})
	case vmcommon.BuiltInFunctionESDTNFTTransfer:
		t := w.Codec.Token(m.args[3])
		out = append(out, item{tok: m.args[0], nonceB: m.args[1], qty: t.Value, key: nftKey(m.args[0], m.args[1])})
	case vmcommon.BuiltInFunctionMultiESDTNFTTransfer:
		n := int(new(big.Int).SetBytes(m.args[0]).Uint64())
		for i := 0; i < n; i++ {
			b := 1 + 3*i
			if nonceOf(m.args[b+1]) == 0 {
				out = append(out, item{tok: m.args[b], nonceB: m.args[b+1], qty: num(m.args[b+2]), key: tokenKey(m.args[b])})
			} else {
				t := w.Codec.Token(m.args[b+2])
				out = append(out, item{tok: m.args[b], nonceB: m.args[b+1], qty: t.Value, key: nftKey(m.args[b], m.args[b+1])})
			}
		}
	}
	return out
}

func fnFor(w *world.World, name string) vmcommon.BuiltinFunction {
	base := vmcommon.BaseOperationCost{StorePerByte: 1, ReleasePerByte: 1, DataCopyPerByte: 1, PersistPerByte: 1, CompilePerByte: 1, AoTPreparePerByte: 1}
	switch name {
	case vmcommon.BuiltInFunctionESDTTransfer:
		f, _ := builtInFunctions.NewESDTTransferFunc(1, w.Codec, w.Pause, w.Shards)
		_ = f.SetPayableHandler(w.Payable)
		return f
	case vmcommon.BuiltInFunctionESDTNFTTransfer:
		f, _ := builtInFunctions.NewESDTNFTTransferFunc(1, w.Codec, w.Pause, w.Accounts, w.Shards, base)
		_ = f.SetPayableHandler(w.Payable)
		return f
	}
	f, _ := builtInFunctions.NewESDTNFTMultiTransferFunc(1, w.Codec, w.Pause, w.Accounts, w.Shards, base, 0, w.Epochs)
	_ = f.SetPayableHandler(w.Payable)
	return f
}

// deliver executes the message on the destination shard: a fresh arbitrary world satisfying
// Inv (sharing only the codec), acntSnd = nil, CallerAddr = sender, RecipientAddr = destination.
func deliver(s *Scn, m message, refund bool) {
	cfg := world.Config{MetaFieldLen: 1, Split1: !verif.Thorough()}
	if len(carriedCount(m)) > 1 {
		if !verif.Thorough() {
			// two carried tokens: freeze/pause variety of the destination is explored for one token (quick tier)
			cfg.NoPauseGen, cfg.NoFrozenGen = true, true
		} else {
			// thorough: freeze and pause variety for both tokens, pause flags absent or "paused",
			// single-byte nonce split (the multi-byte splits are explored with one token)
			cfg.Split1, cfg.PauseBinary = true, true
		}
	}
	w2 := world.NewShared(cfg, s.W.Codec)
	var dst *world.Account
	in := &vmcommon.ContractCallInput{}
	in.CallValue = big.NewInt(0)
	in.Arguments = m.args
	in.GasProvided = m.gas
	in.GasLocked = m.locked
	in.CallType = m.ct
	if refund {
		// the refund: same message, delivered to the original sender, flagged return-after-error
		dst = s.Snd
		w2 = s.W
		in.CallerAddr = m.dest
		in.RecipientAddr = m.sender
		in.ReturnCallAfterError = true
		in.CallType = vmcommon.AsynchronousCallBack
	} else {
		dst = w2.NewAccount("dst2", m.dest)
		in.CallerAddr = m.sender
		in.RecipientAddr = m.dest
	}
	f := fnFor(w2, m.fn)
	logStart := len(w2.Log)
	pre := map[int]*big.Int{}
	items := carried(w2, m)
	if refund {
		for i := range items {
			_, cur := prePost(w2, dst, items[i].key)
			pre[i] = cur
		}
	}
	out, err := call(f, nil, dst, in)
	if err != nil {
		verif.Assert("refund-never-rejected", !refund)
		// a protocol-generated message may be rejected for the destination's state, never for its shape
		stateBased := verif.Or(
			err == builtInFunctions.ErrESDTIsFrozenForAccount, err == builtInFunctions.ErrESDTTokenIsPaused,
			err == builtInFunctions.ErrAccountNotPayable, err == world.ErrFault,
			err == builtInFunctions.ErrWrongNFTOnDestination, err == builtInFunctions.ErrOnlyFungibleTokensHaveBalanceTransfer)
		verif.AssertExcept("delivery-rejected-only-for-state", stateBased, "F3", deliveryAliased(w2, dst, items))
		verif.Reach("delivery-rejected-by-state", true)
		return
	}
	verif.Assert("delivery-output", out != nil)
	aliased := deliveryAliased(w2, dst, items)
	for i := range items {
		sum := sumFor(items, i)
		p0, post := prePost(w2, dst, items[i].key)
		if refund {
			p0 = pre[i]
		}
		verif.AssertExcept("delivery-credits-exactly", post.Cmp(new(big.Int).Add(p0, sum)) == 0, "F3", aliased)
	}
	for _, wr := range w2.Log[logStart:] {
		if wr.Kind != "kv" {
			continue
		}
		ok := false
		for i := range items {
			if len(items[i].key) == len(wr.Key) {
				ok = verif.Or(ok, verif.And(wr.Acct == dst, verif.BytesEq(wr.Key, items[i].key)))
			}
		}
		verif.AssertExcept("delivery-writes-only-carried-entries", ok, "F3", aliased)
	}
	if refund {
		verif.Reach("refund-ok", true)
	} else {
		verif.Reach("delivery-ok", true)
		verif.Reach("delivery-to-holder", holderBefore(w2, dst, items))
	}
}

func carriedCount(m message) []int {
	if m.fn != vmcommon.BuiltInFunctionMultiESDTNFTTransfer {
		return []int{0}
	}
	return make([]int, int(new(big.Int).SetBytes(m.args[0]).Uint64()))
}

func holderBefore(w *world.World, a *world.Account, items []item) bool {
	r := false
	for i := range items {
		c := a.Find(items[i].key)
		if c != nil {
			r = verif.Or(r, w.Codec.BalanceOf(c.Init).Sign() > 0)
		}
	}
	return r
}

// deliveryAliased: the destination cell under a carried key holds metadata of another nonce
// (finding F3, destination face).
func deliveryAliased(w *world.World, a *world.Account, items []item) bool {
	r := false
	for i := range items {
		c := a.Find(items[i].key)
		if c == nil || !c.Gen {
			continue
		}
		t := w.Codec.Token(c.Init)
		if t == nil {
			continue
		}
		if items[i].nonceB == nil || nonceOf(items[i].nonceB) == 0 {
			r = verif.Or(r, t.TokenMetaData != nil)
		} else if t.TokenMetaData == nil {
			r = true
		} else {
			r = verif.Or(r, t.TokenMetaData.Nonce != nonceOf(items[i].nonceB))
		}
	}
	return r
}

var _ = esdt.ESDigitalToken{}

// ---------------------------------------------------------------------------------------
// harnesses

var sendOpt = Opt{GasEnough: true, NoRAE: true, Direct: true, Small: true, NoFrozen: true, NoPause: true, Split1: true, NoURIs: true}

func init() {
	reg("C01_TransferSend", C01_TransferSend)
	reg("C01_NFTTransferSend", C01_NFTTransferSend)
	reg("C01_MultiTransferSend1", C01_MultiTransferSend1)
	reg("C01_MultiTransferSend2", C01_MultiTransferSend2)
	reg("C01_TransferDeliver", C01_TransferDeliver)
	reg("C01_NFTTransferDeliver", C01_NFTTransferDeliver)
	reg("C01_MultiTransferDeliver1", C01_MultiTransferDeliver1)
	reg("C01_MultiTransferDeliver2", C01_MultiTransferDeliver2)
	reg("C01_TransferSelf", C01_TransferSelf)
	reg("C01_NFTTransferWideNonce", C01_NFTTransferWideNonce)
	reg("C01_MultiTransferWideNonce", C01_MultiTransferWideNonce)
	reg("C01_TransferRefund", C01_TransferRefund)
	reg("C01_NFTTransferRefund", C01_NFTTransferRefund)
	reg("C01_MultiTransferRefund", C01_MultiTransferRefund)
}

func C01_TransferSend() { sendCheck(scnTransfer(sendOpt)) }

// C01_TransferSelf: an ESDTTransfer an account addresses to itself (the same account object is
// sender and destination): debit and credit cancel, so the holding is unchanged, nothing is in
// flight and nothing else is written.
func C01_TransferSelf() {
	o := sendOpt
	o.Presence = 4
	s := scnTransfer(o)
	sendCheck(s)
	if s.Err == nil {
		verif.Reach("self-transfer-ok", true)
	}
}
func C01_NFTTransferSend() { sendCheck(scnNFTTransfer(sendOpt)) }

// C01_NFTTransferWideNonce / C01_MultiTransferWideNonce: the send step with a nonce argument of 8
// or 9 arbitrary bytes (values at and beyond the machine word, among them the multiples of 2^64
// that truncate to 0).
func C01_NFTTransferWideNonce() {
	wideNonce = true
	o := sendOpt
	o.NoCall = true
	sendCheck(scnNFTTransfer(o))
}
func C01_MultiTransferWideNonce() {
	wideNonce = true
	o := sendOpt
	o.MultiK, o.NoCall = 1, true
	sendCheck(scnMultiTransfer(o))
}
func C01_MultiTransferSend1() {
	o := sendOpt
	o.MultiK = 1
	sendCheck(scnMultiTransfer(o))
}
func C01_MultiTransferSend2() {
	o := sendOpt
	o.MultiK = 2
	o.NoCall = true
	o.Medium = true // two items: the same state pins in both tiers (multi-byte nonce splits are explored with one item)
	sendCheck(scnMultiTransfer(o))
}

// crossOpt pins the sender side to its simplest successful shape: what varies is the destination.
var crossOpt = Opt{GasEnough: true, NoRAE: true, Direct: true, Small: true, Thin: true, CrossOnly: true}

func sendThenDeliver(s *Scn, refund bool) {
	m, ok := sendCheck(s)
	if !ok {
		return
	}
	deliver(s, m, refund)
}

func C01_TransferDeliver() {
	o := crossOpt
	o.Presence = 2
	sendThenDeliver(scnTransfer(o), false)
}
func C01_NFTTransferDeliver() { sendThenDeliver(scnNFTTransfer(crossOpt), false) }
func C01_MultiTransferDeliver1() {
	o := crossOpt
	o.MultiK = 1
	sendThenDeliver(scnMultiTransfer(o), false)
}
func C01_MultiTransferDeliver2() {
	o := crossOpt
	o.MultiK = 2
	o.NoCall = true
	sendThenDeliver(scnMultiTransfer(o), false)
}
func C01_TransferRefund() {
	o := crossOpt
	o.Presence = 2
	sendThenDeliver(scnTransfer(o), true)
}
func C01_NFTTransferRefund() { sendThenDeliver(scnNFTTransfer(crossOpt), true) }
func C01_MultiTransferRefund() {
	o := crossOpt
	o.NoCall = true
	sendThenDeliver(scnMultiTransfer(o), true)
}
