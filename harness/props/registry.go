//go:build verif

// Package props holds the harnesses: ordinary Go functions that the symbolic engine treats as
// entry points (verif.* calls are intercepted) and that gc compiles for native replay.
package props

// Harnesses is the native registry (the engine finds harnesses by name in the SSA package).
var Harnesses = map[string]func(){}

func reg(name string, f func()) { Harnesses[name] = f }
