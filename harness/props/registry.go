//go:build verif

// Package props holds the harnesses: ordinary Go functions that the symbolic engine treats as
// entry points (verif.* calls are intercepted) and that gc compiles for native replay.
package props

// Harnesses is the native registry (the engine finds harnesses by name in the SSA package).
var Harnesses = map[string]func(){}

func reg(name string, f func()) { Harnesses[name] = f }

// resetGlobals puts the package-level scenario switches back to their initial values. The
// engine starts every path from freshly initialised globals; the native replay binary runs many
// harnesses in one process and has to do the same.
func resetGlobals() {
	small, noCall, fullAmounts, call2, varyHash, medium = false, false, false, false, false, false
	scnItems, scnDNS = nil, nil
	counterReadFaults = false
	wideNonce = false
}
