//go:build verif

package props

import (
	vmcommon "github.com/ElrondNetwork/elrond-vm-common"
	"github.com/ElrondNetwork/elrond-vm-common/builtInFunctions"
	"github.com/ElrondNetwork/elrond-vm-common/zz_verif/verif"
	"github.com/ElrondNetwork/elrond-vm-common/zz_verif/world"
)

// gasMapOf renders a schedule as the two-level map the node hands to the factory.
func gasMapOf(g *vmcommon.GasCost) map[string]map[string]uint64 {
	b, c := g.BaseOperationCost, g.BuiltInCost
	return map[string]map[string]uint64{
		vmcommon.BaseOperationCostString: {
			"StorePerByte": b.StorePerByte, "ReleasePerByte": b.ReleasePerByte, "DataCopyPerByte": b.DataCopyPerByte,
			"PersistPerByte": b.PersistPerByte, "CompilePerByte": b.CompilePerByte, "AoTPreparePerByte": b.AoTPreparePerByte,
		},
		vmcommon.BuiltInCostString: {
			"ChangeOwnerAddress": c.ChangeOwnerAddress, "ClaimDeveloperRewards": c.ClaimDeveloperRewards, "SaveUserName": c.SaveUserName,
			"SaveKeyValue": c.SaveKeyValue, "ESDTTransfer": c.ESDTTransfer, "ESDTBurn": c.ESDTBurn, "ESDTLocalMint": c.ESDTLocalMint,
			"ESDTLocalBurn": c.ESDTLocalBurn, "ESDTNFTCreate": c.ESDTNFTCreate, "ESDTNFTAddQuantity": c.ESDTNFTAddQuantity,
			"ESDTNFTBurn": c.ESDTNFTBurn, "ESDTNFTTransfer": c.ESDTNFTTransfer, "ESDTNFTChangeCreateOwner": c.ESDTNFTChangeCreateOwner,
			"ESDTNFTMultiTransfer": c.ESDTNFTMultiTransfer, "ESDTNFTAddURI": c.ESDTNFTAddURI, "ESDTNFTUpdateAttributes": c.ESDTNFTUpdateAttributes,
		},
	}
}

// factoryFor builds the production factory over the scenario's world and schedule.
func factoryFor(s *Scn, dns map[string]struct{}, activation uint32) (vmcommon.BuiltInFunctionContainer, interface {
	GasScheduleChange(map[string]map[string]uint64)
}) {
	args := builtInFunctions.ArgsCreateBuiltInFunctionContainer{
		GasMap:                              gasMapOf(s.Gas),
		MapDNSAddresses:                     dns,
		EnableUserNameChange:                true,
		Marshalizer:                         s.W.Codec,
		Accounts:                            s.W.Accounts,
		ShardCoordinator:                    s.W.Shards,
		EpochNotifier:                       s.W.Epochs,
		ESDTNFTImprovementV1ActivationEpoch: activation,
	}
	f, err := builtInFunctions.NewBuiltInFunctionsFactory(args)
	verif.Assert("factory-constructed", verif.And(err == nil, f != nil))
	c, err := f.CreateBuiltInFunctionContainer()
	verif.Assert("container-created", verif.And(err == nil, c != nil))
	err = builtInFunctions.SetPayableHandler(c, s.W.Payable)
	verif.Assert("payable-handler-set", err == nil)
	return c, f
}

var protocolNames = []string{
	vmcommon.BuiltInFunctionClaimDeveloperRewards, vmcommon.BuiltInFunctionChangeOwnerAddress, vmcommon.BuiltInFunctionSetUserName,
	vmcommon.BuiltInFunctionSaveKeyValue, vmcommon.BuiltInFunctionESDTTransfer, vmcommon.BuiltInFunctionESDTBurn,
	vmcommon.BuiltInFunctionESDTFreeze, vmcommon.BuiltInFunctionESDTUnFreeze, vmcommon.BuiltInFunctionESDTWipe,
	vmcommon.BuiltInFunctionESDTPause, vmcommon.BuiltInFunctionESDTUnPause, vmcommon.BuiltInFunctionSetESDTRole,
	vmcommon.BuiltInFunctionUnSetESDTRole, vmcommon.BuiltInFunctionESDTLocalMint, vmcommon.BuiltInFunctionESDTLocalBurn,
	vmcommon.BuiltInFunctionESDTNFTTransfer, vmcommon.BuiltInFunctionESDTNFTCreate, vmcommon.BuiltInFunctionESDTNFTAddQuantity,
	vmcommon.BuiltInFunctionESDTNFTCreateRoleTransfer, vmcommon.BuiltInFunctionESDTNFTBurn, vmcommon.BuiltInFunctionESDTNFTAddURI,
	vmcommon.BuiltInFunctionESDTNFTUpdateAttributes, vmcommon.BuiltInFunctionMultiESDTNFTTransfer,
}

func init() {
	reg("C18_RegistryComplete", C18_RegistryComplete)
}

// C18_RegistryComplete: the container holds exactly the protocol's 23 names, every entry is
// retrievable, exactly the three epoch-gated ones follow the notifier, the rest is active.
func C18_RegistryComplete() {
	s := newScn("registry", Opt{})
	s.Gas = schedule("g")
	act := verif.U32("activation")
	c, _ := factoryFor(s, map[string]struct{}{}, act)
	verif.Assert("twenty-three-functions", c.Len() == 23)
	keys := c.Keys()
	verif.Assert("twenty-three-keys", len(keys) == 23)
	for _, n := range protocolNames {
		_, ok := keys[n]
		verif.Assert("protocol-name-registered", ok)
		f, err := c.Get(n)
		verif.Assert("protocol-name-retrievable", verif.And(err == nil, f != nil))
	}
	verif.Assert("three-epoch-subscribers", len(s.W.Epochs.Handlers) == 3)
	e := verif.U32("epoch")
	s.W.Epochs.Confirm(e)
	for _, n := range protocolNames {
		f, _ := c.Get(n)
		gated := n == vmcommon.BuiltInFunctionESDTNFTAddURI || n == vmcommon.BuiltInFunctionESDTNFTUpdateAttributes || n == vmcommon.BuiltInFunctionMultiESDTNFTTransfer
		if gated {
			verif.Assert("gated-follows-epoch", f.IsActive() == (e >= act))
		} else {
			verif.Assert("ungated-always-active", f.IsActive())
		}
	}
	_, err := c.Get("NoSuchFunction")
	verif.Assert("unknown-name-rejected", err != nil)
	verif.Reach("done", true)
	verif.Reach("gated-active", e >= act)
	verif.Reach("gated-inactive", e < act)
}

// boundCheck drives container.Get(name) with that name's scenario and asserts that name's
// effect: its C02 supply effect and its C16 price under the factory's schedule (all 22
// schedule entries are independent symbols, so another function's entry cannot satisfy the
// equation), plus the flag/role effect for the unpriced system-contract functions.
func boundCheck(name string, s *Scn) {
	dns := map[string]struct{}{}
	if name == vmcommon.BuiltInFunctionSetUserName {
		dns[string(scnDNS[0])] = struct{}{}
	}
	act := verif.U32("activation2")
	if s.Gas == nil {
		s.Gas = schedule("g")
	}
	c, _ := factoryFor(s, dns, act)
	f, err := c.Get(name)
	verif.Assert("bound", verif.And(err == nil, f != nil))
	s.Fn = f
	e := verif.U32("epoch2")
	verif.Assume(e >= act)
	s.W.Epochs.Confirm(e)
	s.Run()
	ok := s.Err == nil
	verif.Reach("success", ok)
	if !ok {
		return
	}
	args := s.In.Arguments
	switch name {
	case vmcommon.BuiltInFunctionESDTFreeze, vmcommon.BuiltInFunctionESDTUnFreeze, vmcommon.BuiltInFunctionESDTWipe:
		cell := s.Dst.Find(tokenKey(args[0]))
		verif.Assert("entry-touched", cell != nil)
		t := s.W.Codec.Token(cell.Cur)
		frozenNow := t != nil && len(t.Properties) == 2 && t.Properties[0]&1 != 0
		switch name {
		case vmcommon.BuiltInFunctionESDTFreeze:
			verif.Assert("freeze-sets-the-bit", frozenNow)
		case vmcommon.BuiltInFunctionESDTUnFreeze:
			verif.Assert("unfreeze-clears-the-bit", !frozenNow)
		default:
			verif.Assert("wipe-deletes", len(cell.Cur) == 0)
		}
	case vmcommon.BuiltInFunctionESDTPause:
		verif.Assert("pause-sets-the-flag", s.W.Pause.IsPaused(tokenKey(args[0])))
	case vmcommon.BuiltInFunctionESDTUnPause:
		verif.Assert("unpause-clears-the-flag", !s.W.Pause.IsPaused(tokenKey(args[0])))
	case vmcommon.BuiltInFunctionSetESDTRole:
		verif.Assert("set-adds-role", countRoleBytes(rolesAfter(s, s.Dst, args[0]), args[1]) >= 1)
	case vmcommon.BuiltInFunctionUnSetESDTRole:
		before := countRoleBytes(s.W.Codec.RolesOf(s.Dst.Find(roleKey(args[0])).Init), args[1])
		after := countRoleBytes(rolesAfter(s, s.Dst, args[0]), args[1])
		verif.Assert("unset-removes-role", verif.Or(before == 0, after == before-1))
	}
	if s.Priced {
		charge, cok := chargeNow(s)
		if cok && (s.Snd != nil || name == vmcommon.BuiltInFunctionSetUserName) {
			fwd, _ := forwarded(s)
			consumed := s.In.GasProvided - s.Out.GasRemaining - fwd
			f12 := verif.And(s.Name == "ClaimDeveloperRewards", s.In.CallType == vmcommon.AsynchronousCall, allEq(s.In.CallerAddr, 0, 8, 0))
			verif.AssertExcept("priced-by-own-entry", verif.Or(s.In.GasProvided < charge, consumed == charge), "F12", f12)
		}
	}
}

func countRoleBytes(roles [][]byte, want []byte) int {
	n := 0
	for _, r := range roles {
		if len(r) == len(want) && verif.BytesEq(r, want) {
			n++
		}
	}
	return n
}

var _ = world.ErrFault
