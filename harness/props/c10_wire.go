//go:build verif

package props

import (
	"math/big"

	vmcommon "github.com/ElrondNetwork/elrond-vm-common"
	"github.com/ElrondNetwork/elrond-vm-common/parsers"
	"github.com/ElrondNetwork/elrond-vm-common/zz_verif/verif"
	"github.com/ElrondNetwork/elrond-vm-common/zz_verif/world"
)

func init() {
	reg("C10_EmitTransfer", C10_EmitTransfer)
	reg("C10_EmitNFTTransfer", C10_EmitNFTTransfer)
	reg("C10_EmitMultiTransfer", C10_EmitMultiTransfer)
	reg("C10_EmitMultiTransfer2X", C10_EmitMultiTransfer2X)
	reg("C10_EmitMultiTransferManyItems", C10_EmitMultiTransferManyItems)
	reg("C10T_ParserLedgerMultiSender2", C10T_ParserLedgerMultiSender2)
	reg("C10_EmitESDTBurn", C10_EmitESDTBurn)
	reg("C10_EmitCreateRoleTransfer", C10_EmitCreateRoleTransfer)
	reg("C10_EmitSetUserName", C10_EmitSetUserName)
	reg("C10_ParserLedgerTransfer", C10_ParserLedgerTransfer)
	reg("C10_ParserLedgerNFTSender", C10_ParserLedgerNFTSender)
	reg("C10_ParserLedgerNFTDest", C10_ParserLedgerNFTDest)
	reg("C10_ParserLedgerMultiSender", C10_ParserLedgerMultiSender)
	reg("C10_ParserLedgerMultiDest", C10_ParserLedgerMultiDest)
	reg("C10_CallReport", C10_CallReport)
}

var wireOpt = Opt{GasEnough: true, NoRAE: true, Small: true, Thin: true, FixedCaller: true}

// attachedName is the function name of an attached call; the property's domain is non-empty,
// '@'-free names (outside it "the name that was encoded" is undefined).
func validName(b []byte) bool { return verif.And(len(b) > 0, noAt(b)) }

// everyEmission parses every non-empty data string of the output with the real parser and
// hands (function, args, transfer) to check.
func everyEmission(s *Scn, check func(fn string, args [][]byte, ot vmcommon.OutputTransfer)) int {
	n := 0
	if s.Out == nil {
		return 0
	}
	for _, oa := range s.Out.OutputAccounts {
		for _, ot := range oa.OutputTransfers {
			if len(ot.Data) == 0 {
				continue
			}
			n++
			fn, args, err := parsers.NewCallArgsParser().ParseData(string(ot.Data))
			verif.Assert("emitted-data-parses", err == nil)
			if err == nil {
				check(fn, args, ot)
			}
		}
	}
	return n
}

func sameArgs(id string, got, want [][]byte) {
	verif.Assert(id+"-count", len(got) == len(want))
	if len(got) != len(want) {
		return
	}
	for i := range want {
		verif.Assert(id, verif.BytesEq(got[i], want[i]))
	}
}

// callTail asserts that (fn, args) is the attached call the input carries from index min.
func callTail(s *Scn, fn string, args [][]byte, min int) {
	in := s.In.Arguments
	verif.Assert("attached-call-present", len(in) > min)
	if len(in) <= min {
		return
	}
	verif.Assert("attached-function", fn == string(in[min]))
	sameArgs("attached-arg", args, in[min+1:])
}

func C10_EmitTransfer() {
	s := scnTransfer(wireOpt)
	for i := vmcommon.MinLenArgumentsESDTTransfer; i < len(s.In.Arguments) && i == vmcommon.MinLenArgumentsESDTTransfer; i++ {
		verif.Assume(validName(s.In.Arguments[i]))
	}
	s.Run()
	if s.Err != nil {
		return
	}
	n := everyEmission(s, func(fn string, args [][]byte, ot vmcommon.OutputTransfer) {
		if s.Dst != nil {
			// same shard: the only emission is the attached call
			callTail(s, fn, args, vmcommon.MinLenArgumentsESDTTransfer)
		} else {
			// cross shard through a contract: the whole call is forwarded
			verif.Assert("forwarded-function", fn == vmcommon.BuiltInFunctionESDTTransfer)
			sameArgs("forwarded-arg", args, s.In.Arguments)
		}
	})
	verif.Reach("emitted", n > 0)
	verif.Reach("emitted-call-same-shard", verif.And(n > 0, s.Dst != nil))
}

func C10_EmitNFTTransfer() {
	o := wireOpt
	s := scnNFTTransfer(o)
	if len(s.In.Arguments) > 4 {
		verif.Assume(validName(s.In.Arguments[4]))
	}
	s.Run()
	if s.Err != nil {
		return
	}
	cross := s.W.Shards.ComputeId(s.DstAddr) != s.W.Shards.Self
	n := everyEmission(s, func(fn string, args [][]byte, ot vmcommon.OutputTransfer) {
		if !cross {
			callTail(s, fn, args, vmcommon.MinLenArgumentsESDTNFTTransfer)
			return
		}
		verif.Assert("message-function", fn == vmcommon.BuiltInFunctionESDTNFTTransfer)
		verif.Assert("message-arity", len(args) == len(s.In.Arguments))
		if len(args) != len(s.In.Arguments) {
			return
		}
		for i := range args {
			if i == 3 {
				// the destination address is replaced by the serialised entry
				verif.Assert("message-payload-is-token", s.W.Codec.Token(args[3]) != nil)
			} else {
				verif.Assert("message-arg", verif.BytesEq(args[i], s.In.Arguments[i]))
			}
		}
	})
	verif.Reach("emitted-cross", verif.And(n > 0, cross))
	verif.Reach("emitted-call-same-shard", verif.And(n > 0, !cross))
	if cross {
		verif.Assert("cross-shard-always-emits", n == 1)
	}
}

func C10_EmitMultiTransfer() {
	o := wireOpt
	o.MultiK = 1
	if verif.Thorough() {
		o.MultiK = 0
	}
	o.NoCall = false
	emitMulti(o)
}

// C10_EmitMultiTransfer2X: two items of arbitrary kinds to another shard (every item of the
// message, not only the first, must carry its own token, nonce and quantity).
func C10_EmitMultiTransfer2X() {
	o := wireOpt
	o.MultiK = 2
	o.CrossOnly = true
	o.NoCall = !verif.Thorough()
	emitMulti(o)
}

// C10_EmitMultiTransferManyItems: the item count of the cross-shard message is a number, not a
// byte: 255, 256 and 257 items (all the same concrete fungible item, so that only the count varies)
// are announced as 255, 256 and 257.
func C10_EmitMultiTransferManyItems() {
	o := wireOpt
	o.MultiK = 255 + verif.Choose("items-255-plus", 3)
	o.CrossOnly, o.NoCall, o.SameItems, o.Direct, o.NoPause, o.NoFrozen = true, true, true, true, true, true
	emitMulti(o)
}

func emitMulti(o Opt) {
	s := scnMultiTransfer(o)
	k := len(scnItems)
	if len(s.In.Arguments) > 2+3*k {
		verif.Assume(validName(s.In.Arguments[2+3*k]))
	}
	s.Run()
	if s.Err != nil {
		return
	}
	cross := s.W.Shards.ComputeId(s.DstAddr) != s.W.Shards.Self
	n := everyEmission(s, func(fn string, args [][]byte, ot vmcommon.OutputTransfer) {
		if !cross {
			callTail(s, fn, args, 2+3*k)
			return
		}
		verif.Assert("message-function", fn == vmcommon.BuiltInFunctionMultiESDTNFTTransfer)
		verif.Assert("message-arity", len(args) == len(s.In.Arguments)-1)
		if len(args) != len(s.In.Arguments)-1 {
			return
		}
		verif.Assert("message-count", new(big.Int).SetBytes(args[0]).Cmp(big.NewInt(int64(k))) == 0)
		for i := 0; i < k; i++ {
			in := s.In.Arguments[2+3*i : 5+3*i]
			verif.Assert("message-token", verif.BytesEq(args[1+3*i], in[0]))
			nonce := new(big.Int).SetBytes(in[1])
			qty := new(big.Int).SetBytes(in[2])
			verif.Assert("message-nonce", new(big.Int).SetBytes(args[2+3*i]).Cmp(nonce) == 0)
			if nonce.Sign() == 0 {
				verif.Assert("message-fungible-value", new(big.Int).SetBytes(args[3+3*i]).Cmp(qty) == 0)
			} else {
				t := s.W.Codec.Token(args[3+3*i])
				verif.Assert("message-payload-is-token", t != nil)
				if t != nil {
					verif.Assert("message-payload-has-quantity-and-metadata", t.Value != nil && t.TokenMetaData != nil)
					if t.Value != nil {
						verif.Assert("message-payload-quantity", t.Value.Cmp(qty) == 0)
					}
					if t.TokenMetaData != nil {
						verif.Assert("message-payload-nonce", new(big.Int).SetUint64(t.TokenMetaData.Nonce).Cmp(nonce) == 0)
					}
				}
			}
		}
		// the attached call travels unchanged
		sameArgs("message-call", args[1+3*k:], s.In.Arguments[2+3*k:])
	})
	if cross {
		verif.Assert("cross-shard-always-emits", n == 1)
	}
	verif.Reach("emitted-cross", verif.And(n > 0, cross))
}

func C10_EmitESDTBurn() {
	s := scnESDTBurn(wireOpt)
	s.Run()
	if s.Err != nil {
		return
	}
	n := everyEmission(s, func(fn string, args [][]byte, ot vmcommon.OutputTransfer) {
		verif.Assert("forwarded-function", fn == vmcommon.BuiltInFunctionESDTBurn)
		sameArgs("forwarded-arg", args, s.In.Arguments)
	})
	verif.Reach("emitted", n > 0)
}

func C10_EmitCreateRoleTransfer() {
	s := scnCreateRoleTransfer(wireOpt)
	s.Run()
	if s.Err != nil {
		return
	}
	n := everyEmission(s, func(fn string, args [][]byte, ot vmcommon.OutputTransfer) {
		verif.Assert("handover-function", fn == vmcommon.BuiltInFunctionESDTNFTCreateRoleTransfer)
		verif.Assert("handover-arity", len(args) == 2)
		if len(args) == 2 {
			verif.Assert("handover-token", verif.BytesEq(args[0], s.In.Arguments[0]))
		}
	})
	verif.Reach("emitted", n > 0)
}

func C10_EmitSetUserName() {
	o := wireOpt
	o.FixedCaller = false
	s := scnSetUserName(o)
	s.Run()
	if s.Err != nil {
		return
	}
	n := everyEmission(s, func(fn string, args [][]byte, ot vmcommon.OutputTransfer) {
		verif.Assert("forwarded-function", fn == vmcommon.BuiltInFunctionSetUserName)
		sameArgs("forwarded-arg", args, s.In.Arguments)
	})
	verif.Reach("emitted", n > 0)
}

// ---------------------------------------------------------------------------------------
// (c) the ESDT-transfer parser's report equals what the ledger moved

// moved is the balance change of the cell of acct under key (post - pre).
func moved(s *Scn, acct *world.Account, key []byte) *big.Int {
	pre, post := prePost(s.W, acct, key)
	return new(big.Int).Sub(post, pre)
}

func parserLedger(s *Scn, fnName string, side int, minArgs int) {
	p, _ := parsers.NewESDTTransferParser(s.W.Codec)
	s.Run()
	if s.Err != nil {
		verif.Reach("rejected", true)
		return
	}
	callReport(s, fnName, minArgs)
	res, err := p.ParseESDTTransfers(s.In.CallerAddr, s.In.RecipientAddr, fnName, s.In.Arguments)
	verif.Assert("parser-accepts-what-ledger-accepted", verif.And(err == nil, res != nil))
	if err != nil || res == nil {
		return
	}
	// who is credited / addressed
	var acct *world.Account
	sign := int64(1)
	switch side {
	case 0: // sender side: the parser reports what is debited from the caller
		acct = s.Snd
		sign = -1
		if fnName == vmcommon.BuiltInFunctionESDTTransfer {
			verif.Assert("receiver", verif.BytesEq(res.RcvAddr, s.In.RecipientAddr))
		} else {
			verif.Assert("receiver", verif.BytesEq(res.RcvAddr, s.DstAddr))
		}
	default: // destination side: what is credited to the recipient
		acct = s.Dst
		verif.Assert("receiver", verif.BytesEq(res.RcvAddr, s.In.RecipientAddr))
	}
	aliased := aliasedRead(s, acct)
	for i, tr := range res.ESDTTransfers {
		var key []byte
		if tr.ESDTTokenNonce == 0 {
			key = tokenKey(tr.ESDTTokenName)
		} else {
			key = append(tokenKey(tr.ESDTTokenName), new(big.Int).SetUint64(tr.ESDTTokenNonce).Bytes()...)
		}
		// aggregate the report over repeated keys, as the ledger does
		sum := big.NewInt(0)
		for j, tj := range res.ESDTTransfers {
			var kj []byte
			if tj.ESDTTokenNonce == 0 {
				kj = tokenKey(tj.ESDTTokenName)
			} else {
				kj = append(tokenKey(tj.ESDTTokenName), new(big.Int).SetUint64(tj.ESDTTokenNonce).Bytes()...)
			}
			_ = j
			if len(kj) == len(key) {
				sum = new(big.Int).Add(sum, verif.IteInt(verif.BytesEq(kj, key), tj.ESDTValue, big.NewInt(0)))
			}
		}
		want := new(big.Int).Mul(sum, big.NewInt(sign))
		if acct != nil && !(side == 0 && s.Snd == s.Dst) {
			verif.AssertExcept("reported-value-equals-ledger-delta", moved(s, acct, key).Cmp(want) == 0, "F3", aliased)
		}
		_ = i
	}
	verif.Reach("agreed", true)
	if fnName == vmcommon.BuiltInFunctionMultiESDTNFTTransfer && len(scnItems) > 1 {
		verif.Reach("agreed-multi", len(res.ESDTTransfers) > 1)
	}
	verif.ObserveU64("n", uint64(len(res.ESDTTransfers)))
}

func callReport(s *Scn, fnName string, min int) {
	p, _ := parsers.NewESDTTransferParser(s.W.Codec)
	res, err := p.ParseESDTTransfers(s.In.CallerAddr, s.In.RecipientAddr, fnName, s.In.Arguments)
	if err != nil || res == nil {
		return
	}
	in := s.In.Arguments
	if len(in) > min {
		verif.Assert("call-function-reported", res.CallFunction == string(in[min]))
		sameArgs("call-arg-reported", res.CallArgs, in[min+1:])
	} else {
		verif.Assert("no-call-reported", verif.And(res.CallFunction == "", len(res.CallArgs) == 0))
	}
}

var plOpt = Opt{GasEnough: true, NoRAE: true, Direct: true, Small: true, FullAmounts: true, NoFrozen: true, NoPause: true, Split1: true, NoURIs: true}

func C10_ParserLedgerTransfer() {
	s := scnTransfer(plOpt)
	side := 0
	if s.Snd == nil {
		side = 2
	}
	parserLedger(s, vmcommon.BuiltInFunctionESDTTransfer, side, 2)
}

func C10_ParserLedgerNFTSender() {
	s := scnNFTTransfer(plOpt)
	parserLedger(s, vmcommon.BuiltInFunctionESDTNFTTransfer, 0, 4)
}

func C10_ParserLedgerNFTDest() {
	o := plOpt
	o.Side = 2
	s := scnNFTTransfer(o)
	parserLedger(s, vmcommon.BuiltInFunctionESDTNFTTransfer, 2, 4)
}

func C10_ParserLedgerMultiSender() {
	o := plOpt
	o.NoCall = !verif.Thorough()
	if !verif.Thorough() {
		o.FullAmounts = false
	} else {
		o.MultiK = 1 // thorough: one item with every argument length and the attached call; two items below
	}
	s := scnMultiTransfer(o)
	parserLedger(s, vmcommon.BuiltInFunctionMultiESDTNFTTransfer, 0, 2+3*len(scnItems))
}

// C10T_ParserLedgerMultiSender2 (thorough only): two items with the full amount length set, no
// attached call, the quick tier's other argument lengths.
func C10T_ParserLedgerMultiSender2() {
	o := plOpt
	o.NoCall = true
	o.Medium = true
	o.MultiK = 2
	s := scnMultiTransfer(o)
	parserLedger(s, vmcommon.BuiltInFunctionMultiESDTNFTTransfer, 0, 2+3*len(scnItems))
}

func C10_ParserLedgerMultiDest() {
	o := plOpt
	o.Side = 2
	o.NoCall = !verif.Thorough()
	s := scnMultiTransfer(o)
	parserLedger(s, vmcommon.BuiltInFunctionMultiESDTNFTTransfer, 2, 1+3*len(scnItems))
}

// C10_CallReport: for every transfer function and side, the attached call function and
// arguments the parser reports are exactly the tail of the input the built-in function
// forwards (C10_Emit* ties the forwarded tail to the same input), for 0..3 call arguments.
func C10_CallReport() {
	o := Opt{Small: true, Thin: true, Call2: true, GasEnough: true, NoRAE: true, Direct: true}
	var s *Scn
	var fn string
	min := 0
	switch verif.Choose("which", 5) {
	case 0:
		o.Presence = 2
		s, fn, min = scnTransfer(o), vmcommon.BuiltInFunctionESDTTransfer, 2
	case 1:
		s, fn, min = scnNFTTransfer(o), vmcommon.BuiltInFunctionESDTNFTTransfer, 4
	case 2:
		o.Side = 2
		s, fn, min = scnNFTTransfer(o), vmcommon.BuiltInFunctionESDTNFTTransfer, 4
	case 3:
		s = scnMultiTransfer(o)
		fn, min = vmcommon.BuiltInFunctionMultiESDTNFTTransfer, 2+3*len(scnItems)
	default:
		o.Side = 2
		s = scnMultiTransfer(o)
		fn, min = vmcommon.BuiltInFunctionMultiESDTNFTTransfer, 1+3*len(scnItems)
	}
	// the attached call may carry up to three arguments
	if len(s.In.Arguments) > min && verif.Bool("extra.call.arg") {
		s.In.Arguments = append(s.In.Arguments, verif.Bytes("t.arg2", 1))
	}
	p, _ := parsers.NewESDTTransferParser(s.W.Codec)
	res, err := p.ParseESDTTransfers(s.In.CallerAddr, s.In.RecipientAddr, fn, s.In.Arguments)
	verif.Assert("well-formed-call-parses", verif.And(err == nil, res != nil))
	if err != nil || res == nil {
		return
	}
	in := s.In.Arguments
	if len(in) > min {
		verif.Assert("call-function-reported", res.CallFunction == string(in[min]))
		sameArgs("call-arg-reported", res.CallArgs, in[min+1:])
		verif.Reach("three-call-arguments", len(in)-min-1 == 3)
	} else {
		verif.Assert("no-call-reported", verif.And(res.CallFunction == "", len(res.CallArgs) == 0))
		verif.Reach("no-call", true)
	}
}
