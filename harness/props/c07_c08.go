//go:build verif

package props

import (
	"math/big"

	vmcommon "github.com/ElrondNetwork/elrond-vm-common"
	"github.com/ElrondNetwork/elrond-vm-common/builtInFunctions"
	"github.com/ElrondNetwork/elrond-vm-common/data/esdt"
	"github.com/ElrondNetwork/elrond-vm-common/zz_verif/verif"
	"github.com/ElrondNetwork/elrond-vm-common/zz_verif/world"
)

func init() {
	reg("C07_Create", C07_Create)
	reg("C07_CreateCounterReadFault", C07_CreateCounterReadFault)
	reg("C07_HandOverCounterReadFault", C07_HandOverCounterReadFault)
	reg("C07_HandOverAtCurrentOwner", C07_HandOverAtCurrentOwner)
	reg("C07_HandOverAtNextOwner", C07_HandOverAtNextOwner)
	reg("C08_CreateStoresMetadata", C08_CreateStoresMetadata)
	reg("C08_AddURI", C08_AddURI)
	reg("C08_UpdateAttributes", C08_UpdateAttributes)
	reg("C08_HopSameShard", C08_HopSameShard)
	reg("C08_HopCrossShard", C08_HopCrossShard)
	reg("C08_MultiHopCrossShard", C08_MultiHopCrossShard)
	reg("C08_HashMismatchRejected", C08_HashMismatchRejected)
}

// counterOf decodes a nonce-counter cell value (absent = 0).
func counterOf(b []byte) uint64 { return new(big.Int).SetBytes(b).Uint64() }

var nonceOpt = Opt{GasEnough: true, NoRAE: true, Direct: true, Small: true, FixedCaller: true, NoPause: true, NoFrozen: true}

// C07_Create: a successful ESDTNFTCreate returns and stores previous counter + 1, and the
// created entry lives under that nonce (key suffix = metadata nonce = returned nonce).
func C07_Create() { createCheck(false) }

// C07_CreateCounterReadFault: the same when the read of the counter may fail: a create that
// succeeds all the same still continues after the stored counter - an unreadable counter is not
// "no nonce issued yet".
func C07_CreateCounterReadFault() { createCheck(true) }

// C07_HandOverCounterReadFault: likewise the hand-over ships the stored counter or fails.
func C07_HandOverCounterReadFault() {
	counterReadFaults = true
	C07_HandOverAtCurrentOwner()
}

var counterReadFaults bool

func createCheck(readFaults bool) {
	o := nonceOpt
	o.Thin = readFaults
	s := scnNFTCreate(o)
	s.W.CounterReadFaults = readFaults
	s.Run()
	s.W.CounterReadFaults = false
	if readFaults {
		verif.Reach("counter-read-failed", s.W.ReadFaultHit)
		verif.Reach("counter-read-failed-and-rejected", verif.And(s.W.ReadFaultHit, s.Err != nil))
	}
	if s.Err != nil {
		verif.Reach("rejected", true)
		return
	}
	tok := s.In.Arguments[0]
	nc := s.Snd.Find(nonceKey(tok))
	verif.Assert("counter-touched", nc != nil)
	prev := counterOf(nc.Init)
	next := counterOf(nc.Cur)
	verif.Assert("counter-incremented-by-one", next == prev+1)
	verif.Assert("counter-did-not-wrap", next > prev)
	verif.Assert("returns-one-value", len(s.Out.ReturnData) == 1)
	verif.Assert("returned-nonce", counterOf(s.Out.ReturnData[0]) == next)
	// the created entry
	n := 0
	for _, wr := range s.W.Log {
		if wr.Kind != "kv" || world.KeyClass(wr.Key) != "token" {
			continue
		}
		n++
		t := s.W.Codec.Token(wr.Val)
		verif.Assert("entry-decodes", verif.And(t != nil, t.TokenMetaData != nil))
		verif.Assert("entry-nonce", t.TokenMetaData.Nonce == next)
		want := append(tokenKey(tok), new(big.Int).SetUint64(next).Bytes()...)
		verif.Assert("entry-key-is-token-and-nonce", verif.And(len(want) == len(wr.Key), verif.BytesEq(want, wr.Key)))
	}
	verif.Assert("one-entry-created", n == 1)
	verif.Reach("created", true)
	verif.Reach("created-first", prev == 0)
	verif.Reach("created-at-byte-boundary", next == 256)
	verif.ObserveU64("next", next)
}

// rolesAfter is the role list the account holds now. The cell is materialised first: a call
// that never touched the role list has not generated it, and "never looked" must not read as
// "holds no roles".
func rolesAfter(s *Scn, a *world.Account, tok []byte) [][]byte {
	_, _ = a.RetrieveValue(roleKey(tok))
	c := a.Find(roleKey(tok))
	if c == nil {
		return nil
	}
	return s.W.Codec.RolesOf(c.Cur)
}

func countRole(roles [][]byte, want string) int {
	n := 0
	for _, r := range roles {
		if len(r) == len(want) && verif.BytesEq(r, []byte(want)) {
			n++
		}
	}
	return n
}

// C07_HandOverAtCurrentOwner: the old holder loses counter and role; the message (and, on the
// same shard, the new holder) gets exactly the old counter.
func C07_HandOverAtCurrentOwner() {
	w := world.New(world.Config{RolesMax: 2, RoleLens: []int{17}})
	s := &Scn{Name: "ESDTNFTCreateRoleTransfer", W: w}
	tok := tokenID("tok")
	s.Dst = w.NewAccount("dst", addr32("dst.addr"))
	newOwner := addr32("newowner")
	s.DstAddr = newOwner
	s.In = w.Input(vmcommon.ESDTSCAddress, s.Dst.Addr, [][]byte{tok, newOwner})
	s.Fn, _ = builtInFunctions.NewESDTNFTCreateRoleTransfer(w.Codec, w.Accounts, w.Shards)
	w.CounterReadFaults = counterReadFaults
	s.Run()
	w.CounterReadFaults = false
	if counterReadFaults {
		verif.Reach("counter-read-failed", w.ReadFaultHit)
	}
	if s.Err != nil {
		verif.Reach("rejected", true)
		return
	}
	nc := s.Dst.Find(nonceKey(tok))
	verif.Assert("counter-touched", nc != nil)
	c := counterOf(nc.Init)
	if verif.BytesEq(newOwner, s.Dst.Addr) {
		// a hand-over to the current holder itself: it keeps counter and role
		verif.Assert("self-handover-keeps-counter", counterOf(nc.Cur) == c)
		verif.Assert("self-handover-keeps-role", countRole(rolesAfter(s, s.Dst, tok), vmcommon.ESDTRoleNFTCreate) == 1)
		verif.Reach("self-handover", true)
		return
	}
	verif.Assert("old-counter-zeroed", counterOf(nc.Cur) == 0)
	verif.Assert("old-role-removed", countRole(rolesAfter(s, s.Dst, tok), vmcommon.ESDTRoleNFTCreate) == 0)
	// the message carries exactly c
	m := emitted(s, newOwner)
	verif.Assert("handover-message-emitted", m.present)
	if m.present {
		verif.Assert("message-function", m.fn == vmcommon.BuiltInFunctionESDTNFTCreateRoleTransfer)
		verif.Assert("message-arity", len(m.args) == 2)
		verif.Assert("message-token", verif.BytesEq(m.args[0], tok))
		verif.Assert("message-counter", counterOf(m.args[1]) == c)
	}
	if w.Shards.ComputeId(newOwner) == w.Shards.Self {
		n := s.acctAt(newOwner)
		verif.Assert("new-owner-loaded", n != nil)
		if n != nil && n != s.Dst {
			nn := n.Find(nonceKey(tok))
			verif.Assert("new-counter-written", nn != nil)
			verif.Assert("new-counter-is-old-counter", counterOf(nn.Cur) == c)
			verif.Assert("new-role-present-once", countRole(rolesAfter(s, n, tok), vmcommon.ESDTRoleNFTCreate) == 1)
		}
		verif.Reach("same-shard-handover", n != s.Dst)
	} else {
		verif.Reach("cross-shard-handover", true)
	}
	verif.ObserveU64("c", c)
}

// C07_HandOverAtNextOwner: the new holder continues after the carried counter, holds the role
// exactly once, and a repeated delivery changes nothing more.
func C07_HandOverAtNextOwner() {
	w := world.New(world.Config{RolesMax: 2, RoleLens: []int{17}})
	s := &Scn{Name: "ESDTNFTCreateRoleTransfer", W: w}
	tok := tokenID("tok")
	s.Dst = w.NewAccount("dst", addr32("dst.addr"))
	carriedB := verif.BytesOf("counter", 0, 1, 2, 8)
	s.In = w.Input(addr32("caller.addr"), s.Dst.Addr, [][]byte{tok, carriedB})
	verif.Assume(!verif.BytesEq(s.In.CallerAddr, vmcommon.ESDTSCAddress))
	s.Fn, _ = builtInFunctions.NewESDTNFTCreateRoleTransfer(w.Codec, w.Accounts, w.Shards)
	s.Run()
	verif.Assert("delivery-accepted", s.Err == nil)
	if s.Err != nil {
		return
	}
	nc := s.Dst.Find(nonceKey(tok))
	verif.Assert("counter-written", nc != nil)
	verif.Assert("counter-is-carried", counterOf(nc.Cur) == counterOf(carriedB))
	verif.Assert("role-present-once", countRole(rolesAfter(s, s.Dst, tok), vmcommon.ESDTRoleNFTCreate) == 1)
	// delivered twice in a row = once
	cur := nc.Cur
	roles1 := rolesAfter(s, s.Dst, tok)
	s.Run()
	verif.Assert("repeat-accepted", s.Err == nil)
	verif.Assert("repeat-counter-unchanged", verif.And(len(cur) == len(nc.Cur), verif.BytesEq(cur, nc.Cur)))
	verif.Assert("repeat-roles-unchanged", len(rolesAfter(s, s.Dst, tok)) == len(roles1))
	verif.Reach("delivered", true)
}

// ---------------------------------------------------------------------------------------
// C08

var metaOpt = Opt{GasEnough: true, NoRAE: true, Direct: true, FixedCaller: true, NoPause: true, NoFrozen: true, NoCall: true, Split1: true}

// C08_CreateStoresMetadata: the stored metadata is exactly what the call was given, creator is
// the creating account and royalties are at most 10000.
func C08_CreateStoresMetadata() {
	o := metaOpt
	o.Small = !verif.Thorough()
	o.Medium = true
	o.Thin = verif.Thorough() // the wider argument shapes are the subject; the pre-state is C07's
	s := scnNFTCreate(o)
	s.Run()
	if s.Err != nil {
		verif.Reach("rejected", true)
		return
	}
	args := s.In.Arguments
	for _, wr := range s.W.Log {
		if wr.Kind != "kv" || world.KeyClass(wr.Key) != "token" {
			continue
		}
		t := s.W.Codec.Token(wr.Val)
		verif.Assert("entry-decodes", verif.And(t != nil, t.TokenMetaData != nil))
		m := t.TokenMetaData
		verif.Assert("name", verif.BytesEq(m.Name, args[2]))
		verif.Assert("creator-is-caller", verif.BytesEq(m.Creator, s.In.CallerAddr))
		verif.Assert("royalties-bounded", m.Royalties <= vmcommon.MaxRoyalty)
		verif.Assert("royalties-value", uint64(m.Royalties) == new(big.Int).SetBytes(args[3]).Uint64()&0xffffffff)
		verif.Assert("hash", verif.BytesEq(m.Hash, args[4]))
		verif.Assert("attributes", verif.BytesEq(m.Attributes, args[5]))
		verif.Assert("uri-count", len(m.URIs) == len(args)-6)
		if len(m.URIs) == len(args)-6 {
			for i := range m.URIs {
				verif.Assert("uri", verif.BytesEq(m.URIs[i], args[6+i]))
			}
		}
		verif.Assert("type-nonfungible", t.Type == uint32(vmcommon.NonFungible))
		// the log topic carries the stored bytes
		verif.Assert("log-carries-entry", verif.And(len(s.Out.Logs) == 1, len(s.Out.Logs[0].Topics) == 3))
	}
	verif.Reach("created", true)
	verif.Reach("created-max-royalties", new(big.Int).SetBytes(args[3]).Uint64() == 10000)
}

func metaBefore(s *Scn, a *world.Account, key []byte) (*esdt.ESDigitalToken, *world.Cell) {
	c := a.Find(key)
	if c == nil {
		return nil, nil
	}
	return s.W.Codec.Token(c.Init), c
}

func C08_AddURI() {
	s := scnNFTAddURI(metaOpt)
	s.Run()
	if s.Err != nil {
		verif.Reach("rejected", true)
		return
	}
	args := s.In.Arguments
	key := nftKey(args[0], args[1])
	pre, c := metaBefore(s, s.Snd, key)
	aliased := aliasedRead(s, s.Snd)
	verif.Assert("entry-read", verif.And(pre != nil, c != nil))
	ax := func(id string, cond bool) { verif.AssertExcept(id, cond, "F3", aliased) }
	post := s.W.Codec.Token(c.Cur)
	verif.AssertExcept("entry-still-there", post != nil && post.TokenMetaData != nil, "F3", aliased)
	if post == nil || post.TokenMetaData == nil {
		return
	}
	a, b := pre.TokenMetaData, post.TokenMetaData
	ax("balance-unchanged", post.Value.Cmp(pre.Value) == 0)
	ax("other-fields-unchanged", verif.And(a.Nonce == b.Nonce, verif.BytesEq(a.Name, b.Name), verif.BytesEq(a.Creator, b.Creator),
		a.Royalties == b.Royalties, verif.BytesEq(a.Hash, b.Hash), verif.BytesEq(a.Attributes, b.Attributes)))
	ax("uris-appended-count", len(b.URIs) == len(a.URIs)+len(args)-2)
	if len(b.URIs) == len(a.URIs)+len(args)-2 {
		for i := range a.URIs {
			ax("old-uri-kept", verif.BytesEq(a.URIs[i], b.URIs[i]))
		}
		for i := 2; i < len(args); i++ {
			ax("new-uri-appended", verif.BytesEq(b.URIs[len(a.URIs)+i-2], args[i]))
		}
	}
	for _, wr := range s.W.Log {
		verif.AssertExcept("nothing-else-written", verif.And(wr.Kind == "kv", wr.Acct == s.Snd, len(wr.Key) == len(key), verif.BytesEq(wr.Key, key)), "F3", aliased)
	}
	verif.Reach("appended", true)
}

func C08_UpdateAttributes() {
	s := scnNFTUpdateAttributes(metaOpt)
	s.Run()
	if s.Err != nil {
		verif.Reach("rejected", true)
		return
	}
	args := s.In.Arguments
	key := nftKey(args[0], args[1])
	pre, c := metaBefore(s, s.Snd, key)
	aliased := aliasedRead(s, s.Snd)
	verif.Assert("entry-read", verif.And(pre != nil, c != nil))
	ax := func(id string, cond bool) { verif.AssertExcept(id, cond, "F3", aliased) }
	post := s.W.Codec.Token(c.Cur)
	verif.AssertExcept("entry-still-there", post != nil && post.TokenMetaData != nil, "F3", aliased)
	if post == nil || post.TokenMetaData == nil {
		return
	}
	a, b := pre.TokenMetaData, post.TokenMetaData
	ax("balance-unchanged", post.Value.Cmp(pre.Value) == 0)
	ax("attributes-replaced", verif.BytesEq(b.Attributes, args[2]))
	ax("other-fields-unchanged", verif.And(a.Nonce == b.Nonce, verif.BytesEq(a.Name, b.Name), verif.BytesEq(a.Creator, b.Creator),
		a.Royalties == b.Royalties, verif.BytesEq(a.Hash, b.Hash), len(a.URIs) == len(b.URIs)))
	for _, wr := range s.W.Log {
		verif.AssertExcept("nothing-else-written", verif.And(wr.Kind == "kv", wr.Acct == s.Snd, len(wr.Key) == len(key), verif.BytesEq(wr.Key, key)), "F3", aliased)
	}
	verif.Reach("replaced", true)
}

var hopOpt = Opt{GasEnough: true, NoRAE: true, Direct: true, Small: true, NoPause: true, NoFrozen: true, Split1: true, NoCall: true}

// C08_HopSameShard: a same-shard NFT transfer leaves every metadata field of the moved entry
// equal at the destination.
func C08_HopSameShard() {
	s := scnNFTTransfer(hopOpt)
	s.W.Shards.Set(s.DstAddr, s.W.Shards.Self)
	verif.Assume(num(s.Amt).Sign() > 0)
	s.Run()
	if s.Err != nil {
		verif.Reach("rejected", true)
		return
	}
	args := s.In.Arguments
	key := nftKey(args[0], args[1])
	pre, _ := metaBefore(s, s.Snd, key)
	d := s.acctAt(s.DstAddr)
	verif.Assert("destination-loaded", d != nil)
	if d == nil || pre == nil {
		return
	}
	aliased := verif.Or(aliasedRead(s, s.Snd), aliasedRead(s, d))
	dc := d.Find(key)
	verif.AssertExcept("destination-entry-written", dc != nil, "F3", aliased)
	if dc == nil {
		return
	}
	post := s.W.Codec.Token(dc.Cur)
	verif.AssertExcept("destination-entry-decodes", post != nil, "F3", aliased)
	if post != nil {
		verif.AssertExcept("metadata-intact", world.MetaEq(pre.TokenMetaData, post.TokenMetaData), "F3", aliased)
	}
	verif.Reach("hop", true)
	verif.Reach("hop-to-holder", s.W.Codec.BalanceOf(dc.Init).Sign() > 0)
}

func hopCross(s *Scn) {
	items := itemsOf(s)
	var pres []*esdt.ESDigitalToken
	m, ok := sendCheck(s)
	if !ok {
		return
	}
	for i := range items {
		p, _ := metaBefore(s, s.Snd, items[i].key)
		pres = append(pres, p)
	}
	cfg := world.Config{MetaFieldLen: 1, Split1: !verif.Thorough(), NoPauseGen: true, NoFrozenGen: true}
	w2 := world.NewShared(cfg, s.W.Codec)
	dst := w2.NewAccount("dst2", m.dest)
	in := &vmcommon.ContractCallInput{}
	in.CallValue = big.NewInt(0)
	in.Arguments, in.GasProvided, in.GasLocked, in.CallType = m.args, m.gas, m.locked, m.ct
	in.CallerAddr, in.RecipientAddr = m.sender, m.dest
	_, err := call(fnFor(w2, m.fn), nil, dst, in)
	if err != nil {
		verif.Reach("delivery-rejected", true)
		return
	}
	for i := range items {
		if nonceOf(items[i].nonceB) == 0 || pres[i] == nil || items[i].qty.Sign() == 0 {
			continue
		}
		dc := dst.Find(items[i].key)
		aliased := verif.Or(aliasedRead(s, s.Snd), deliveryAliased(w2, dst, items))
		verif.AssertExcept("destination-entry-written", dc != nil, "F3", aliased)
		if dc == nil {
			continue
		}
		post := w2.Codec.Token(dc.Cur)
		verif.AssertExcept("destination-entry-decodes", post != nil, "F3", aliased)
		if post != nil {
			verif.AssertExcept("metadata-intact", world.MetaEq(pres[i].TokenMetaData, post.TokenMetaData), "F3", aliased)
		}
		verif.Reach("hop", true)
	}
}

func C08_HopCrossShard() {
	o := hopOpt
	o.CrossOnly = true
	hopCross(scnNFTTransfer(o))
}

func C08_MultiHopCrossShard() {
	o := hopOpt
	o.CrossOnly = true
	o.MultiK = 1
	if verif.Thorough() {
		o.MultiK = 0
	}
	hopCross(scnMultiTransfer(o))
}

// C08_HashMismatchRejected: a transfer into an account that holds a different hash under the
// same token and nonce is rejected (deliberately without the NFT-identity assumption).
func C08_HashMismatchRejected() {
	o := hopOpt
	o.Side = 2
	o.VaryHash = true
	var s *Scn
	if verif.Bool("multi") {
		o.MultiK = 1
		s = scnMultiTransfer(o)
	} else {
		s = scnNFTTransfer(o)
	}
	s.Run()
	// find the destination entry that was there before and the carried payload
	var payload *esdt.ESDigitalToken
	if s.Name == "ESDTNFTTransfer" {
		payload = s.W.Codec.Token(s.In.Arguments[3])
	} else {
		payload = s.W.Codec.Token(s.In.Arguments[3])
	}
	if payload == nil || payload.TokenMetaData == nil {
		return
	}
	for _, c := range s.Dst.Cells {
		if !c.Gen || world.KeyClass(c.Key) != "token" {
			continue
		}
		t := s.W.Codec.Token(c.Init)
		if t == nil || t.TokenMetaData == nil {
			continue
		}
		differs := !verif.And(len(t.TokenMetaData.Hash) == len(payload.TokenMetaData.Hash), verif.BytesEq(t.TokenMetaData.Hash, payload.TokenMetaData.Hash))
		verif.Assert("different-hash-rejected", verif.Or(!differs, s.Err != nil))
		verif.Reach("mismatch-rejected", verif.And(differs, s.Err != nil))
		verif.Reach("same-hash-accepted", verif.And(!differs, s.Err == nil))
	}
}
