//go:build verif

package props

import (
	"math/big"

	vmcommon "github.com/ElrondNetwork/elrond-vm-common"
	"github.com/ElrondNetwork/elrond-vm-common/builtInFunctions"
	"github.com/ElrondNetwork/elrond-vm-common/data/esdt"
	"github.com/ElrondNetwork/elrond-vm-common/zz_verif/verif"
	"github.com/ElrondNetwork/elrond-vm-common/zz_verif/world"
)

// slot is one storage location a call is entitled to write.
type slot struct {
	acct *world.Account
	key  []byte
	tok  []byte // the token the key belongs to (nil for non-token keys)
	pfx  bool   // key is a prefix: every key that extends it is allowed (ESDTNFTCreate's fresh nonce)
}

// acctAt returns the world account registered under addr (nil when none was ever loaded).
func (s *Scn) acctAt(addr []byte) *world.Account {
	if addr == nil {
		return nil
	}
	for _, a := range s.W.Accounts.Known {
		if len(a.Addr) == len(addr) && verif.BytesEq(a.Addr, addr) {
			return a
		}
	}
	return nil
}

// footprint is the set of storage locations the input entitles the call to write (C05):
// prefix‖Arguments[i]‖nonceBytes, roleKeyPrefix‖token, noncePrefix‖token, the pause key in the
// system account - in the sender, the recipient, the designated destination or 0xff…ff only.
func (s *Scn) footprint() []slot {
	var out []slot
	args := s.In.Arguments
	add := func(a *world.Account, key, tok []byte) {
		if a != nil {
			out = append(out, slot{acct: a, key: key, tok: tok})
		}
	}
	switch s.Name {
	case "ESDTLocalBurn", "ESDTLocalMint", "ESDTBurn":
		if len(args) >= 1 {
			add(s.Snd, tokenKey(args[0]), args[0])
		}
	case "ESDTNFTAddQuantity", "ESDTNFTBurn", "ESDTNFTAddURI", "ESDTNFTUpdateAttributes":
		if len(args) >= 2 {
			add(s.Snd, nftKey(args[0], args[1]), args[0])
		}
	case "ESDTNFTCreate":
		if len(args) >= 1 && s.Snd != nil {
			out = append(out, slot{acct: s.Snd, key: tokenKey(args[0]), tok: args[0], pfx: true})
			add(s.Snd, nonceKey(args[0]), nil)
		}
	case "ESDTFreeze", "ESDTUnFreeze", "ESDTWipe":
		if len(args) >= 1 {
			add(s.Dst, tokenKey(args[0]), args[0])
		}
	case "ESDTPause", "ESDTUnPause":
		if len(args) >= 1 {
			add(s.W.Sys, tokenKey(args[0]), args[0])
		}
	case "ESDTSetRole", "ESDTUnSetRole":
		if len(args) >= 1 {
			add(s.Dst, roleKey(args[0]), nil)
		}
	case "ESDTNFTCreateRoleTransfer":
		if len(args) >= 1 {
			add(s.Dst, roleKey(args[0]), nil)
			add(s.Dst, nonceKey(args[0]), nil)
			if len(args) >= 2 {
				if n := s.acctAt(args[1]); n != nil {
					add(n, roleKey(args[0]), nil)
					add(n, nonceKey(args[0]), nil)
				}
			}
		}
	case "ESDTTransfer":
		if len(args) >= 1 {
			add(s.Snd, tokenKey(args[0]), args[0])
			add(s.Dst, tokenKey(args[0]), args[0])
		}
	case "ESDTNFTTransfer":
		if len(args) >= 4 {
			if s.Snd != nil {
				k := nftKey(args[0], args[1])
				add(s.Snd, k, args[0])
				add(s.acctAt(args[3]), k, args[0])
			} else if s.Dst != nil {
				out = append(out, s.arrivalSlot(args[0], []byte{1}, args[3]))
			}
		}
	case "MultiESDTNFTTransfer":
		if s.Snd != nil && len(args) >= 2 {
			d := s.acctAt(args[0])
			for i := 2; i+2 < len(args) && i < 2+3*3; i += 3 {
				k := nftKey(args[i], args[i+1])
				add(s.Snd, k, args[i])
				add(d, k, args[i])
			}
		} else if s.Dst != nil && len(args) >= 1 {
			for i := 1; i+2 < len(args) && i < 1+3*3; i += 3 {
				out = append(out, s.arrivalSlot(args[i], args[i+1], args[i+2]))
			}
		}
	}
	return out
}

// arrivalSlot is the one entry an arriving item may credit on the destination shard: the plain
// token key for a fungible item, token‖nonce with the nonce the payload carries for an NFT/SFT
// item (the plain key when the payload has no metadata); every entry of the token when the
// payload is not a decodable token (the call then fails or decodes to an arbitrary value).
func (s *Scn) arrivalSlot(tok, nonceB, third []byte) slot {
	if nonceOf(nonceB) == 0 {
		return slot{acct: s.Dst, key: tokenKey(tok), tok: tok}
	}
	t := s.W.Codec.Token(third)
	if t == nil {
		return slot{acct: s.Dst, key: tokenKey(tok), tok: tok, pfx: true}
	}
	if t.TokenMetaData == nil || t.TokenMetaData.Nonce == 0 {
		return slot{acct: s.Dst, key: tokenKey(tok), tok: tok}
	}
	return slot{acct: s.Dst, key: append(tokenKey(tok), new(big.Int).SetUint64(t.TokenMetaData.Nonce).Bytes()...), tok: tok}
}

func inFootprint(fp []slot, wr world.Write) bool {
	r := false
	for _, sl := range fp {
		if sl.acct != wr.Acct {
			continue
		}
		if sl.pfx {
			r = verif.Or(r, verif.HasPrefix(wr.Key, sl.key))
		} else if len(sl.key) == len(wr.Key) {
			r = verif.Or(r, verif.BytesEq(sl.key, wr.Key))
		}
	}
	return r
}

// accountLevel reports which account-field writes the function is entitled to.
func (s *Scn) accountLevel(wr world.Write) bool {
	switch s.Name {
	case "ClaimDeveloperRewards":
		return (wr.Kind == "claim" && wr.Acct == s.Dst) || (wr.Kind == "balance" && wr.Acct == s.Snd)
	case "ChangeOwnerAddress":
		return wr.Kind == "owner" && wr.Acct == s.Dst
	case "SetUserName":
		return wr.Kind == "username" && wr.Acct == s.Dst
	}
	return false
}

// footprintCheck is C05's frame condition for every function but SaveKeyValue.
func footprintCheck(s *Scn) {
	// keys are built as fixed prefix + token id (+ nonce): the prefixes (function object, package
	// level) are read-only during the call, spare capacity included - a key built into a shared
	// buffer would name another token as soon as the next key is built
	verif.WatchObject(s.Fn, "function-object")
	s.Run()
	verif.WatchOn(false)
	fp := s.footprint()
	aliased := verif.Or(aliasedRead(s, s.Snd), aliasedRead(s, s.Dst), aliasedRead(s, s.acctAt(s.DstAddr)))
	for _, wr := range s.W.Log {
		switch wr.Kind {
		case "save-account":
			verif.Assert("saved-account-is-participant", verif.Or(wr.Acct == s.Snd, wr.Acct == s.Dst, wr.Acct == s.W.Sys, wr.Acct == s.acctAt(s.DstAddr)))
		case "kv":
			verif.AssertExcept("write-within-footprint", inFootprint(fp, wr), "F3", aliased)
		default:
			verif.Assert("account-field-write-allowed", s.accountLevel(wr))
		}
	}
	verif.Reach("success", s.Err == nil)
	verif.Reach("wrote-something", len(s.W.Log) > 0)
	verif.ObserveBool("ok", s.Err == nil)
	verif.ObserveU64("writes", uint64(len(s.W.Log)))
}

// ---------------------------------------------------------------------------------------
// C02: supply

func supplyOracle(s *Scn) {
	s.Run()
	args := s.In.Arguments
	aliased := verif.Or(aliasedRead(s, s.Snd), aliasedRead(s, s.Dst))
	ok := s.Err == nil
	switch s.Name {
	case "ESDTLocalMint", "ESDTLocalBurn", "ESDTBurn":
		sign := -1
		if s.Name == "ESDTLocalMint" {
			sign = 1
		}
		supplyCheck(s.W, s.Snd, tokenKey(args[0]), num(args[1]), sign, s.Err)
		return
	case "ESDTNFTAddQuantity", "ESDTNFTBurn":
		key := nftKey(args[0], args[1])
		pre, post := prePost(s.W, s.Snd, key)
		amt := num(args[2])
		if ok {
			want := new(big.Int).Add(pre, amt)
			if s.Name == "ESDTNFTBurn" {
				want = new(big.Int).Sub(pre, amt)
			}
			verif.AssertExcept("delta-equals-amount", post.Cmp(want) == 0, "F3", aliased)
			verif.Assert("post-nonnegative", post.Sign() >= 0)
			for _, wr := range s.W.Log {
				verif.AssertExcept("frame-only-own-entry", verif.And(wr.Kind == "kv", wr.Acct == s.Snd, verif.BytesEq(wr.Key, key)), "F3", aliased)
			}
			verif.Reach("success", true)
			if s.Name == "ESDTNFTBurn" {
				verif.Reach("success-exact-balance", amt.Cmp(pre) == 0)
			}
		} else if s.Err == builtInFunctions.ErrInvalidNFTQuantity {
			verif.Assert("insufficient-only-when-overdraft", amt.Cmp(pre) > 0)
			verif.Reach("overdraft-rejected", true)
		}
	case "ESDTNFTCreate":
		if ok {
			qty := num(args[1])
			// the created entry: the single token-class write of the log
			n := 0
			for _, wr := range s.W.Log {
				if wr.Kind == "kv" && world.KeyClass(wr.Key) == "token" {
					n++
					verif.Assert("created-quantity", s.W.Codec.BalanceOf(wr.Val).Cmp(qty) == 0)
					verif.Assert("created-positive", qty.Sign() > 0)
					verif.Assert("created-under-token", verif.HasPrefix(wr.Key, tokenKey(args[0])))
				}
			}
			verif.Assert("exactly-one-entry-created", n == 1)
			verif.Reach("success", true)
		}
	case "ESDTWipe":
		if ok {
			key := tokenKey(args[0])
			c := s.Dst.Find(key)
			verif.Assert("wipe-touched-entry", c != nil)
			if c != nil {
				t := s.W.Codec.Token(c.Init)
				frozen := t != nil && len(t.Properties) == 2 && t.Properties[0]&1 != 0
				verif.Assert("wipe-only-when-frozen", frozen)
				verif.Assert("wipe-removes-entry", len(c.Cur) == 0)
			}
			onlyWrites("frame-only-wiped-entry", s.W, s.Dst, key)
			verif.Reach("success", true)
		}
	default:
		// transfers are C01's; every other function leaves every balance unchanged
		if s.Name != "ESDTTransfer" && s.Name != "ESDTNFTTransfer" && s.Name != "MultiESDTNFTTransfer" {
			for _, a := range s.W.Accounts.Known {
				if a.IsSystem {
					continue
				}
				for _, c := range a.Cells {
					if world.KeyClass(c.Key) != "token" {
						continue
					}
					if c.Blind {
						// written without being read: the new value must carry no balance of its own making
						verif.AssertExcept("no-balance-created", s.W.Codec.BalanceOf(c.Cur).Sign() == 0, "F3", aliased)
						continue
					}
					verif.AssertExcept("balance-unchanged", s.W.Codec.BalanceOf(c.Init).Cmp(s.W.Codec.BalanceOf(c.Cur)) == 0, "F3", aliased)
				}
			}
			verif.Reach("success", ok)
		}
	}
	verif.Reach("success", ok)
	verif.ObserveBool("ok", ok)
}

// ---------------------------------------------------------------------------------------
// C03: authority

func hasRole(roles [][]byte, want string) bool {
	r := false
	for _, x := range roles {
		if len(x) == len(want) {
			r = verif.Or(r, verif.BytesEq(x, []byte(want)))
		}
	}
	return r
}

func (s *Scn) heldRoles(tok []byte) [][]byte {
	if s.Snd == nil {
		return nil
	}
	c := s.Snd.Find(roleKey(tok))
	if c == nil {
		return nil
	}
	return s.W.Codec.RolesOf(c.Init)
}

func authorityCheck(s *Scn) {
	var preOwner []byte
	if s.Dst != nil {
		preOwner = s.Dst.Owner
	}
	s.Run()
	ok := s.Err == nil
	args := s.In.Arguments
	authorized := true
	switch s.Name {
	case "ESDTLocalMint":
		authorized = hasRole(s.heldRoles(args[0]), vmcommon.ESDTRoleLocalMint)
	case "ESDTLocalBurn":
		authorized = hasRole(s.heldRoles(args[0]), vmcommon.ESDTRoleLocalBurn)
	case "ESDTNFTAddQuantity":
		authorized = hasRole(s.heldRoles(args[0]), vmcommon.ESDTRoleNFTAddQuantity)
	case "ESDTNFTBurn":
		authorized = hasRole(s.heldRoles(args[0]), vmcommon.ESDTRoleNFTBurn)
	case "ESDTNFTAddURI":
		authorized = hasRole(s.heldRoles(args[0]), vmcommon.ESDTRoleNFTAddURI)
	case "ESDTNFTUpdateAttributes":
		authorized = hasRole(s.heldRoles(args[0]), vmcommon.ESDTRoleNFTUpdateAttributes)
	case "ESDTNFTCreate":
		roles := s.heldRoles(args[0])
		authorized = hasRole(roles, vmcommon.ESDTRoleNFTCreate)
		if num(args[1]).Cmp(big.NewInt(1)) > 0 {
			authorized = verif.And(authorized, hasRole(roles, vmcommon.ESDTRoleNFTAddQuantity))
		}
	case "ESDTFreeze", "ESDTUnFreeze", "ESDTWipe", "ESDTPause", "ESDTUnPause", "ESDTSetRole", "ESDTUnSetRole":
		authorized = verif.BytesEq(s.In.CallerAddr, vmcommon.ESDTSCAddress)
	case "ESDTNFTCreateRoleTransfer":
		// system-only and destination-side paths refuse to run when the sender account is local
		authorized = s.Snd == nil
	case "ChangeOwnerAddress", "ClaimDeveloperRewards":
		if s.Dst != nil {
			authorized = verif.BytesEq(s.In.CallerAddr, preOwner)
		}
	case "SetUserName":
		authorized = verif.BytesEq(s.In.CallerAddr, scnDNS[0])
	}
	if ok {
		verif.Assert("success-implies-authority", authorized)
		verif.Reach("authorized-success", true)
		if s.Name == "ESDTSetRole" || s.Name == "ESDTUnSetRole" {
			roleEffect(s)
		}
		if s.Name == "ESDTNFTCreateRoleTransfer" && s.Dst != nil && len(args) == 2 && verif.BytesEq(s.In.CallerAddr, vmcommon.ESDTSCAddress) {
			// the hand-over at the current holder: "currently holds" must end here, whatever else
			// the role list contains (also when the create role was its only entry)
			if !verif.BytesEq(args[1], s.Dst.Addr) {
				verif.Assert("handed-over-role-gone-afterwards", !hasRole(rolesAfter(s, s.Dst, args[0]), vmcommon.ESDTRoleNFTCreate))
				verif.Reach("handed-over", true)
			}
		}
	} else {
		// an attempt by anyone else changes no state
		writes := false
		for _, wr := range s.W.Log {
			if wr.Kind != "save-account" {
				writes = true
			}
		}
		verif.Assert("unauthorized-changes-nothing", verif.Or(authorized, !writes))
		verif.Reach("unauthorized-rejected", !authorized)
	}
	verif.ObserveBool("ok", ok)
}

// ---------------------------------------------------------------------------------------
// C04: frozen accounts and paused tokens

func frozenCell(s *Scn, a *world.Account, key []byte) bool {
	if a == nil {
		return false
	}
	c := a.Find(key)
	if c == nil {
		return false
	}
	t := s.W.Codec.Token(c.Init)
	if t == nil || len(t.Properties) != 2 {
		return false
	}
	return t.Properties[0]&1 != 0
}

func pausedToken(s *Scn, tok []byte) bool {
	c := s.W.Sys.Find(tokenKey(tok))
	if c == nil || len(c.Init) != 2 {
		return false
	}
	return c.Init[0]&1 != 0
}

// freezeCheck: while the account is frozen for the token, or the token is paused, no
// non-exempt call changes the account's entry of that token.
func freezeCheck(s *Scn) {
	s.Run()
	ok := s.Err == nil
	exemptFn := s.Name == "ESDTWipe" || s.Name == "ESDTUnFreeze" || s.Name == "ESDTUnPause" || s.Name == "ESDTFreeze" || s.Name == "ESDTPause"
	if !ok || exemptFn {
		verif.Reach("rejected-or-exempt", true)
		return
	}
	fp := s.footprint()
	// materialise the pause flag of every named token: a call that never consulted it has not
	// generated the cell, and "never looked" must not read as "not paused"
	for _, sl := range fp {
		if sl.tok != nil {
			_, _ = s.W.Sys.RetrieveValue(tokenKey(sl.tok))
		}
	}
	for _, wr := range s.W.Log {
		if wr.Kind != "kv" || world.KeyClass(wr.Key) != "token" || wr.Acct.IsSystem {
			continue
		}
		// exemptions: return-after-error refunds and the system contract's own account
		exempt := verif.Or(s.In.ReturnCallAfterError, verif.BytesEq(wr.Acct.Addr, vmcommon.ESDTSCAddress))
		frozen := frozenCell(s, wr.Acct, wr.Key)
		paused := false
		for _, sl := range fp {
			if sl.tok != nil && sl.acct == wr.Acct {
				if sl.pfx {
					paused = verif.Or(paused, verif.And(verif.HasPrefix(wr.Key, sl.key), pausedToken(s, sl.tok)))
				} else if len(sl.key) == len(wr.Key) {
					paused = verif.Or(paused, verif.And(verif.BytesEq(wr.Key, sl.key), pausedToken(s, sl.tok)))
				}
			}
		}
		changed := s.W.Codec.BalanceOf(wr.Old).Cmp(s.W.Codec.BalanceOf(wr.Val)) != 0
		metaChanged := !world.MetaEq(metaOf(s, wr.Old), metaOf(s, wr.Val))
		verif.Assert("frozen-entry-untouched", verif.Or(exempt, !frozen, verif.And(!changed, !metaChanged)))
		verif.Assert("paused-token-untouched", verif.Or(exempt, !paused, verif.And(!changed, !metaChanged)))
	}
	verif.Reach("success", true)
	verif.ObserveBool("ok", ok)
}

// roleEffect: what an account "currently holds" is what the history of set / unset calls says -
// after a successful ESDTSetRole the list is the old list plus every listed role, after a
// successful ESDTUnSetRole the old list minus every listed role (any number of listed roles,
// held or not, in any order); nothing else appears or disappears.
func roleEffect(s *Scn) {
	args := s.In.Arguments
	set := s.Name == "ESDTSetRole"
	after := rolesAfter(s, s.Dst, args[0])
	var before [][]byte
	if c := s.Dst.Find(roleKey(args[0])); c != nil {
		before = s.W.Codec.RolesOf(c.Init)
	}
	listed := args[1:]
	isListed := func(r []byte) bool {
		l := false
		for _, x := range listed {
			if len(x) == len(r) {
				l = verif.Or(l, verif.BytesEq(x, r))
			}
		}
		return l
	}
	for _, r := range listed {
		if set {
			verif.Assert("set-role-held-afterwards", countRoleBytes(after, r) >= 1)
		} else {
			verif.Assert("unset-role-gone-afterwards", countRoleBytes(after, r) == 0)
		}
	}
	for _, r := range before {
		kept := countRoleBytes(after, r) >= 1
		if set {
			verif.Assert("set-keeps-held-roles", kept)
		} else {
			verif.Assert("unset-keeps-unlisted-roles", verif.Or(isListed(r), kept))
		}
	}
	for _, r := range after {
		was := countRoleBytes(before, r) >= 1
		if set {
			verif.Assert("set-adds-only-listed-roles", verif.Or(was, isListed(r)))
		} else {
			verif.Assert("unset-adds-nothing", was)
		}
	}
	verif.Reach("role-effect-checked", true)
	verif.Reach("role-effect-two-listed", len(listed) == 2)
}

func metaOf(s *Scn, buf []byte) *esdt.MetaData {
	t := s.W.Codec.Token(buf)
	if t == nil {
		return nil
	}
	return t.TokenMetaData
}

// invCheck is C15: Inv is asserted by the world on every logged write (world.assertInv).
func invCheck(s *Scn) {
	if s.Name == "ESDTSetRole" {
		// system-contract discipline: the roles being set are pairwise distinct and not already held
		newRoles := s.In.Arguments[1:]
		s.W.RoleDiscipline = func(old [][]byte) bool {
			ok := true
			for i := range newRoles {
				for j := i + 1; j < len(newRoles); j++ {
					if len(newRoles[i]) == len(newRoles[j]) {
						ok = verif.And(ok, !verif.BytesEq(newRoles[i], newRoles[j]))
					}
				}
				for _, o := range old {
					if len(o) == len(newRoles[i]) {
						ok = verif.And(ok, !verif.BytesEq(o, newRoles[i]))
					}
				}
			}
			return ok
		}
	}
	// keys have exactly the protocol's layout also because they are built into fresh memory: the
	// prefixes (function object, package level; spare capacity included) are never written
	verif.WatchObject(s.Fn, "function-object")
	s.Run()
	verif.WatchOn(false)
	verif.Reach("success", s.Err == nil)
	verif.Reach("wrote-something", len(s.W.Log) > 0)
	verif.ObserveBool("ok", s.Err == nil)
}
