//go:build verif

package props

import (
	vmcommon "github.com/ElrondNetwork/elrond-vm-common"
	"github.com/ElrondNetwork/elrond-vm-common/zz_verif/verif"
	"github.com/ElrondNetwork/elrond-vm-common/zz_verif/world"
)

// aliasedRead is the input class of finding F3: some NFT cell the call read holds metadata of
// another nonce than the one asked for (token-id‖nonce concatenations alias each other's
// keys: token "A" nonce 0x4243 and token "AB" nonce 0x43 share one key). The other faces of
// the aliasing defect (an entry without metadata under an NFT request, an NFT entry under a
// fungible request) were repaired by fix a075e33 and are not part of this class.
func aliasedRead(s *Scn, acct *world.Account) bool {
	if acct == nil {
		return false
	}
	r := false
	for _, c := range acct.Cells {
		if !c.Gen || world.KeyClass(c.Key) != "token" {
			continue
		}
		t := s.W.Codec.Token(c.Init)
		if t == nil || t.TokenMetaData == nil {
			continue
		}
		for _, rq := range s.requests() {
			if rq.nonce == nil || len(rq.key) != len(c.Key) {
				continue
			}
			r = verif.Or(r, verif.And(verif.BytesEq(rq.key, c.Key), t.TokenMetaData.Nonce != nonceOf(rq.nonce)))
		}
	}
	return r
}

type request struct {
	key   []byte
	nonce []byte // nil: fungible request
}

// requests lists the (token, nonce) pairs the input names, with the key the code derives.
func (s *Scn) requests() []request {
	var out []request
	args := s.In.Arguments
	switch s.Name {
	case "ESDTNFTTransfer", "ESDTNFTAddQuantity", "ESDTNFTBurn", "ESDTNFTAddURI", "ESDTNFTUpdateAttributes":
		if len(args) >= 2 && nonceOf(args[1]) != 0 {
			out = append(out, request{key: nftKey(args[0], args[1]), nonce: args[1]})
		}
	case "MultiESDTNFTTransfer":
		if s.Snd != nil && len(args) >= 2 {
			for i := 2; i+2 < len(args) && i < 2+3*3; i += 3 {
				if nonceOf(args[i+1]) != 0 {
					out = append(out, request{key: nftKey(args[i], args[i+1]), nonce: args[i+1]})
				} else {
					out = append(out, request{key: tokenKey(args[i])})
				}
			}
		}
	}
	return out
}

// totalCheck is C11: the call returns (output, nil) or (nil, error) and never panics.
func totalCheck(s *Scn) {
	panicked := s.RunCatch()
	if panicked {
		verif.Note(verif.LastPanic())
		verif.AssertExcept("no-panic", false, "F3", verif.Or(aliasedRead(s, s.Snd), aliasedRead(s, s.Dst)))
		return
	}
	if s.Err == nil {
		verif.Assert("ok-shape", s.Out != nil)
		if s.Out != nil {
			verif.Assert("ok-return-code", s.Out.ReturnCode == vmcommon.Ok)
		}
		verif.Reach("success", true)
	} else {
		verif.Assert("error-shape", s.Out == nil)
		verif.Reach("rejected", true)
	}
	verif.ObserveBool("ok", s.Err == nil)
}
