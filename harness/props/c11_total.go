//go:build verif

package props

import (
	vmcommon "github.com/ElrondNetwork/elrond-vm-common"
	"github.com/ElrondNetwork/elrond-vm-common/zz_verif/verif"
	"github.com/ElrondNetwork/elrond-vm-common/zz_verif/world"
)

// aliasedRead is the input class of finding F3: some token cell the call read holds an entry
// that does not belong to the (token, nonce) that was asked for - no metadata although an
// NFT was requested, or metadata although a fungible balance was requested, or metadata of
// another nonce (token-id‖nonce concatenations alias each other's keys).
func aliasedRead(s *Scn, acct *world.Account) bool {
	if acct == nil {
		return false
	}
	r := false
	for _, c := range acct.Cells {
		if !c.Gen || world.KeyClass(c.Key) != "token" {
			continue
		}
		t := s.W.Codec.Token(c.Init)
		if t == nil {
			continue
		}
		// the request that produced this key: either tokenKey(tok) (nonce 0) or nftKey(tok, nonce)
		for _, rq := range s.requests() {
			if len(rq.key) != len(c.Key) {
				continue
			}
			same := verif.BytesEq(rq.key, c.Key)
			if rq.nonce == nil {
				r = verif.Or(r, verif.And(same, t.TokenMetaData != nil))
			} else if t.TokenMetaData == nil {
				r = verif.Or(r, same)
			} else {
				r = verif.Or(r, verif.And(same, t.TokenMetaData.Nonce != nonceOf(rq.nonce)))
			}
		}
	}
	return r
}

type request struct {
	key   []byte
	nonce []byte // nil: fungible request
}

// requests lists the (token, nonce) pairs the input names, with the key the code derives.
func (s *Scn) requests() []request {
	var out []request
	args := s.In.Arguments
	switch s.Name {
	case "ESDTNFTTransfer", "ESDTNFTAddQuantity", "ESDTNFTBurn", "ESDTNFTAddURI", "ESDTNFTUpdateAttributes":
		if len(args) >= 2 && nonceOf(args[1]) != 0 {
			out = append(out, request{key: nftKey(args[0], args[1]), nonce: args[1]})
		}
	case "MultiESDTNFTTransfer":
		if s.Snd != nil && len(args) >= 2 {
			for i := 2; i+2 < len(args) && i < 2+3*3; i += 3 {
				if nonceOf(args[i+1]) != 0 {
					out = append(out, request{key: nftKey(args[i], args[i+1]), nonce: args[i+1]})
				} else {
					out = append(out, request{key: tokenKey(args[i])})
				}
			}
		}
	}
	return out
}

// totalCheck is C11: the call returns (output, nil) or (nil, error) and never panics.
func totalCheck(s *Scn) {
	panicked := s.RunCatch()
	if panicked {
		verif.AssertExcept("no-panic", false, "F3", verif.Or(aliasedRead(s, s.Snd), aliasedRead(s, s.Dst)))
		return
	}
	if s.Err == nil {
		verif.Assert("ok-shape", s.Out != nil)
		if s.Out != nil {
			verif.Assert("ok-return-code", s.Out.ReturnCode == vmcommon.Ok)
		}
		verif.Reach("success", true)
	} else {
		verif.Assert("error-shape", s.Out == nil)
		verif.Reach("rejected", true)
	}
	verif.ObserveBool("ok", s.Err == nil)
}
