//go:build verif

package props

import (
	"github.com/ElrondNetwork/elrond-vm-common/data/esdt"
	"math/big"

	vmcommon "github.com/ElrondNetwork/elrond-vm-common"
	"github.com/ElrondNetwork/elrond-vm-common/zz_verif/verif"
	"github.com/ElrondNetwork/elrond-vm-common/zz_verif/world"
)

// ---------------------------------------------------------------------------------------
// C13: determinism and input purity

func bigEq(a, b *big.Int) bool {
	if a == nil || b == nil {
		return a == nil && b == nil
	}
	return a.Cmp(b) == 0
}

func bytesListEq(a, b [][]byte) bool {
	if len(a) != len(b) {
		return false
	}
	r := true
	for i := range a {
		r = verif.And(r, len(a[i]) == len(b[i]), verif.BytesEq(a[i], b[i]))
	}
	return r
}

func transfersEq(a, b []vmcommon.OutputTransfer) bool {
	if len(a) != len(b) {
		return false
	}
	r := true
	for i := range a {
		r = verif.And(r, bigEq(a[i].Value, b[i].Value), a[i].GasLimit == b[i].GasLimit, a[i].GasLocked == b[i].GasLocked,
			len(a[i].Data) == len(b[i].Data), verif.BytesEq(a[i].Data, b[i].Data), a[i].CallType == b[i].CallType,
			len(a[i].SenderAddress) == len(b[i].SenderAddress), verif.BytesEq(a[i].SenderAddress, b[i].SenderAddress))
	}
	return r
}

// outputEq is deep equality of two VMOutputs as one boolean term.
func outputEq(a, b *vmcommon.VMOutput) bool {
	if a == nil || b == nil {
		return a == nil && b == nil
	}
	r := verif.And(a.ReturnCode == b.ReturnCode, a.GasRemaining == b.GasRemaining, a.ReturnMessage == b.ReturnMessage,
		bytesListEq(a.ReturnData, b.ReturnData), bigEq(a.GasRefund, b.GasRefund), len(a.Logs) == len(b.Logs),
		len(a.OutputAccounts) == len(b.OutputAccounts))
	if len(a.Logs) == len(b.Logs) {
		for i := range a.Logs {
			x, y := a.Logs[i], b.Logs[i]
			r = verif.And(r, len(x.Identifier) == len(y.Identifier), verif.BytesEq(x.Identifier, y.Identifier),
				len(x.Address) == len(y.Address), verif.BytesEq(x.Address, y.Address), bytesListEq(x.Topics, y.Topics),
				len(x.Data) == len(y.Data), verif.BytesEq(x.Data, y.Data))
		}
	}
	for k, x := range a.OutputAccounts {
		y, ok := b.OutputAccounts[k]
		if !ok {
			return false
		}
		r = verif.And(r, len(x.Address) == len(y.Address), verif.BytesEq(x.Address, y.Address), bigEq(x.BalanceDelta, y.BalanceDelta),
			bigEq(x.Balance, y.Balance), x.Nonce == y.Nonce, transfersEq(x.OutputTransfers, y.OutputTransfers))
	}
	return r
}

// encodedSnapshot is the content of everything the call marshalled so far, in call order.
func encodedSnapshot(s *Scn) []*world.Handle {
	var out []*world.Handle
	for _, b := range s.W.Codec.Marshalled {
		h := s.W.Codec.Lookup(b)
		if h == nil {
			out = append(out, &world.Handle{})
			continue
		}
		c := &world.Handle{Tok: world.CloneToken(h.Tok)}
		if h.Roles != nil {
			c.Roles = world.CloneRoles(h.Roles)
		}
		out = append(out, c)
	}
	return out
}

func handleEq(a, b *world.Handle) bool {
	if (a.Tok == nil) != (b.Tok == nil) || (a.Roles == nil) != (b.Roles == nil) {
		return false
	}
	r := true
	if a.Tok != nil {
		x, y := a.Tok, b.Tok
		if (x.Value == nil) != (y.Value == nil) {
			return false
		}
		r = verif.And(r, x.Type == y.Type, len(x.Properties) == len(y.Properties), verif.BytesEq(x.Properties, y.Properties),
			len(x.Reserved) == len(y.Reserved), verif.BytesEq(x.Reserved, y.Reserved), world.MetaEq(x.TokenMetaData, y.TokenMetaData))
		if x.Value != nil {
			r = verif.And(r, x.Value.Cmp(y.Value) == 0)
		}
	}
	if a.Roles != nil {
		if len(a.Roles.Roles) != len(b.Roles.Roles) {
			return false
		}
		for i := range a.Roles.Roles {
			x, y := a.Roles.Roles[i], b.Roles.Roles[i]
			r = verif.And(r, len(x) == len(y), verif.BytesEq(x, y))
		}
	}
	return r
}

func logsEq(a, b []world.Write) bool {
	if len(a) != len(b) {
		return false
	}
	r := true
	for i := range a {
		r = verif.And(r, a[i].Acct == b[i].Acct, a[i].Kind == b[i].Kind, len(a[i].Key) == len(b[i].Key), verif.BytesEq(a[i].Key, b[i].Key),
			len(a[i].Val) == len(b[i].Val), verif.BytesEq(a[i].Val, b[i].Val))
	}
	return r
}

// purityCheck is C13: the call never writes into its input (engine-side write monitor over
// the whole input object graph, spare capacity included) nor into the function object, and a
// repeated execution on the reset world with the same function object yields identical
// results and an identical write log.
func init() {
	reg("C13_NFTTransferDestAnyPayload", C13_NFTTransferDestAnyPayload)
	reg("C13_MultiTransferDestAnyPayload", C13_MultiTransferDestAnyPayload)
}

// C13_NFTTransferDestAnyPayload: the arrival leg of ESDTNFTTransfer with a payload that is not a
// sender side's encoding (the codec decodes it to an entry without a quantity,
// without metadata or without both): whatever the call makes of it, it leaves its
// input, the function object and the package-level state alone and repeats identically.
func C13_NFTTransferDestAnyPayload() {
	s := scnNFTTransfer(Opt{Small: true, Thin: true, NoRAE: true, FixedCaller: true, GasEnough: true, Side: 2, NoCall: true})
	s.In.Arguments[3] = partialPayload(s)
	untouchedCheck(s)
}

// partialPayload is a well-formed encoding of an entry that lacks its quantity, its metadata or
// both - what a sender side never emits but the decoder accepts.
func partialPayload(s *Scn) []byte {
	t := &esdt.ESDigitalToken{Type: uint32(vmcommon.NonFungible)}
	hasValue, hasMeta := verif.Bool("payload.has.value"), verif.Bool("payload.has.meta")
	verif.Assume(!(hasValue && hasMeta))
	if hasValue {
		t.Value = verif.Int("payload.value")
	}
	if hasMeta {
		t.TokenMetaData = &esdt.MetaData{Nonce: nonceOf(s.In.Arguments[1]), Name: verif.Bytes("payload.name", 1), Hash: verif.Bytes("payload.hash", 1)}
	}
	return s.W.Codec.Pack(t)
}

// untouchedCheck is the write-monitor half of purityCheck (one run): the decode of bytes the codec
// has never produced is modelled as an arbitrary choice, so a second run is not comparable.
func untouchedCheck(s *Scn) {
	verif.WatchWrites(s.In, "input")
	verif.WatchObject(s.Fn, "function-object")
	s.Run()
	verif.WatchOn(false)
	verif.Reach("ran", true)
	verif.ObserveBool("ok", s.Err == nil)
}

func C13_MultiTransferDestAnyPayload() {
	s := scnMultiTransfer(Opt{Small: true, Thin: true, NoRAE: true, FixedCaller: true, GasEnough: true, Side: 2, NoCall: true, MultiK: 1})
	s.In.Arguments[3] = partialPayload(s)
	untouchedCheck(s)
}

func purityCheck(s *Scn) {
	// inputs with spare capacity and shared backing arrays
	args := s.In.Arguments
	if len(args) > 0 {
		spare := make([][]byte, len(args), len(args)+2)
		copy(spare, args)
		s.In.Arguments = spare
	}
	verif.WatchWrites(s.In, "input")
	verif.WatchObject(s.Fn, "function-object")
	s.Run()
	verif.WatchOn(false)
	out1, err1 := s.Out, s.Err
	log1 := make([]world.Write, len(s.W.Log))
	copy(log1, s.W.Log)
	enc1 := encodedSnapshot(s)
	s.W.ResetToInit()
	s.Roles.Rewind()
	s.Run()
	out2, err2 := s.Out, s.Err
	verif.Assert("same-error-status", (err1 == nil) == (err2 == nil))
	if err1 != nil && err2 != nil {
		verif.Assert("same-error", err1.Error() == err2.Error())
	}
	verif.Assert("same-output", outputEq(out1, out2))
	verif.Assert("same-writes", logsEq(log1, s.W.Log))
	// the codec is abstract (a handle per Marshal call): byte-identical results mean that the k-th
	// encoded object of both runs has the same content, element order included
	enc2 := encodedSnapshot(s)
	verif.Assert("same-number-of-encoded-objects", len(enc1) == len(enc2))
	if len(enc1) == len(enc2) {
		for i := range enc1 {
			verif.Assert("same-encoded-content", handleEq(enc1[i], enc2[i]))
		}
	}
	verif.Reach("ran-twice", true)
	verif.ObserveBool("ok", err1 == nil)
}

// ---------------------------------------------------------------------------------------
// C16: every function is priced by its own entry of the schedule in force

// chargeNow computes the documented charge for the executed call (needs the codec's record
// of what was marshalled for the per-byte payload components).
func chargeNow(s *Scn) (uint64, bool) {
	g := s.Gas
	switch s.Name {
	case "ESDTNFTTransfer":
		if s.Snd == nil || len(s.W.Codec.Marshalled) == 0 {
			return 0, false
		}
		m := s.W.Codec.Marshalled
		return g.BuiltInCost.ESDTNFTTransfer + uint64(len(m[len(m)-1]))*g.BaseOperationCost.DataCopyPerByte, true
	case "MultiESDTNFTTransfer":
		if s.Snd == nil {
			return 0, false
		}
		k := uint64(len(scnItems))
		c := k * g.BuiltInCost.ESDTNFTMultiTransfer
		// the payloads of the NFT items are the last marshals of the call
		nNFT := 0
		for _, it := range scnItems {
			if nonceOf(it.NonceB) != 0 {
				nNFT++
			}
		}
		m := s.W.Codec.Marshalled
		if len(m) < nNFT {
			return 0, false
		}
		for i := 0; i < nNFT; i++ {
			c += uint64(len(m[len(m)-1-i])) * g.BaseOperationCost.DataCopyPerByte
		}
		return c, true
	case "SaveKeyValue":
		c := g.BuiltInCost.SaveKeyValue
		args := s.In.Arguments
		// replay the storage effect pair by pair
		type kv struct{ k, v []byte }
		var seen []kv
		for i := 0; i+1 < len(args); i += 2 {
			k, v := args[i], args[i+1]
			c += uint64(len(k)+len(v)) * g.BaseOperationCost.PersistPerByte
			var old []byte
			found := false
			for j := len(seen) - 1; j >= 0 && !found; j-- {
				if len(seen[j].k) == len(k) && verif.BytesEq(seen[j].k, k) {
					old, found = seen[j].v, true
				}
			}
			if !found {
				if cell := s.Snd.Find(k); cell != nil {
					old = cell.Init
				}
			}
			if len(old) == len(v) && verif.BytesEq(old, v) {
				continue
			}
			if len(v) > len(old) {
				c += uint64(len(v)-len(old)) * g.BaseOperationCost.StorePerByte
			}
			seen = append(seen, kv{k, v})
		}
		return c, true
	}
	return s.Charge, s.ChargeOK
}

func pricingCheck(s *Scn) {
	s.Run()
	if s.Err != nil || !s.Priced {
		verif.Reach("rejected", s.Err != nil)
		return
	}
	charge, ok := chargeNow(s)
	senderSide := s.Snd != nil || s.Name == "SetUserName"
	if !ok || !senderSide {
		return
	}
	fwd, _ := forwarded(s)
	consumed := s.In.GasProvided - s.Out.GasRemaining - fwd
	funded := s.In.GasProvided >= charge
	// finding F12: ClaimDeveloperRewards called asynchronously by a contract on the same shard moves the
	// remaining gas into a callback transfer and then drops the output accounts: all gas is consumed
	f12 := verif.And(s.Name == "ClaimDeveloperRewards", s.Snd != nil, s.In.CallType == vmcommon.AsynchronousCall, allEq(s.In.CallerAddr, 0, 8, 0))
	verif.AssertExcept("charged-by-own-entry", verif.Or(!funded, consumed == charge), "F12", f12)
	verif.Reach("funded-success", funded)
	verif.ObserveU64("consumed", consumed)
}

// C16_NilScheduleKeepsPrices: SetNewGasConfig(nil) leaves the prices in force.
func C16_NilScheduleKeepsPrices() {
	s := scnLocalMint(Opt{Small: true, Thin: true, NoRAE: true, Direct: true, FixedCaller: true})
	s.Fn.SetNewGasConfig(nil)
	pricingCheck(s)
}

func init() { reg("C16_NilScheduleKeepsPrices", C16_NilScheduleKeepsPrices) }
