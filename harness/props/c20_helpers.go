//go:build verif

package props

import (
	vmcommon "github.com/ElrondNetwork/elrond-vm-common"
	"github.com/ElrondNetwork/elrond-vm-common/builtInFunctions"
	"github.com/ElrondNetwork/elrond-vm-common/zz_verif/verif"
)

func init() {
	reg("C20_CodeMetadataBytes", C20_CodeMetadataBytes)
	reg("C20_CodeMetadataValue", C20_CodeMetadataValue)
	reg("C20_ESDTGlobalMetadata", C20_ESDTGlobalMetadata)
	reg("C20_ESDTUserMetadata", C20_ESDTUserMetadata)
	reg("C20_AddressPredicates", C20_AddressPredicates)
	reg("C20_AddressConstants", C20_AddressConstants)
	reg("C20_SafeSub", C20_SafeSub)
}

// C20_CodeMetadataBytes: To(From(b)) = b & mask for every byte pair; every other length
// decodes to the empty value.
func C20_CodeMetadataBytes() {
	b := verif.BytesLen("b", 0, 4)
	m := vmcommon.CodeMetadataFromBytes(b)
	out := m.ToBytes()
	verif.Assert("len2", len(out) == 2)
	if len(b) == 2 {
		verif.Assert("to-from-mask", verif.And(out[0] == b[0]&5, out[1] == b[1]&2))
		verif.Assert("fields", verif.And(
			m.Upgradeable == (b[0]&1 != 0),
			m.Readable == (b[0]&4 != 0),
			m.Payable == (b[1]&2 != 0)))
		verif.Reach("all-set", verif.And(m.Upgradeable, m.Readable, m.Payable))
		verif.Reach("none-set", verif.Not(verif.Or(m.Upgradeable, m.Readable, m.Payable)))
	} else {
		verif.Assert("other-length-empty", m == vmcommon.CodeMetadata{})
		verif.Assert("empty-bytes", verif.And(out[0] == 0, out[1] == 0))
		verif.Reach("other-length", true)
	}
	verif.ObserveBytes("out", out)
}

// C20_CodeMetadataValue: From(To(m)) = m for every value.
func C20_CodeMetadataValue() {
	m := vmcommon.CodeMetadata{Payable: verif.Bool("p"), Upgradeable: verif.Bool("u"), Readable: verif.Bool("r")}
	b := m.ToBytes()
	m2 := vmcommon.CodeMetadataFromBytes(b)
	verif.Assert("from-to", m2 == m)
	verif.Reach("done", true)
	verif.ObserveBytes("b", b)
}

func C20_ESDTGlobalMetadata() {
	b := verif.BytesLen("b", 0, 4)
	m := builtInFunctions.ESDTGlobalMetadataFromBytes(b)
	out := m.ToBytes()
	verif.Assert("len2", len(out) == 2)
	if len(b) == 2 {
		verif.Assert("to-from-mask", verif.And(out[0] == b[0]&1, out[1] == 0))
		verif.Assert("field", m.Paused == (b[0]&1 != 0))
		verif.Reach("paused", m.Paused)
		verif.Reach("not-paused", !m.Paused)
	} else {
		verif.Assert("other-length-empty", m == builtInFunctions.ESDTGlobalMetadata{})
		verif.Reach("other-length", true)
	}
	m3 := builtInFunctions.ESDTGlobalMetadata{Paused: verif.Bool("p")}
	verif.Assert("from-to", builtInFunctions.ESDTGlobalMetadataFromBytes(m3.ToBytes()) == m3)
	verif.ObserveBytes("out", out)
}

func C20_ESDTUserMetadata() {
	b := verif.BytesLen("b", 0, 4)
	m := builtInFunctions.ESDTUserMetadataFromBytes(b)
	out := m.ToBytes()
	verif.Assert("len2", len(out) == 2)
	if len(b) == 2 {
		verif.Assert("to-from-mask", verif.And(out[0] == b[0]&1, out[1] == 0))
		verif.Assert("field", m.Frozen == (b[0]&1 != 0))
		verif.Reach("frozen", m.Frozen)
		verif.Reach("not-frozen", !m.Frozen)
	} else {
		verif.Assert("other-length-empty", m == builtInFunctions.ESDTUserMetadata{})
		verif.Reach("other-length", true)
	}
	m3 := builtInFunctions.ESDTUserMetadata{Frozen: verif.Bool("f")}
	verif.Assert("from-to", builtInFunctions.ESDTUserMetadataFromBytes(m3.ToBytes()) == m3)
	verif.ObserveBytes("out", out)
}

func allEq(a []byte, lo, hi int, v byte) bool {
	r := true
	for i := lo; i < hi; i++ {
		r = verif.And(r, a[i] == v)
	}
	return r
}

// C20_AddressPredicates: the classifiers are total on every length 0..40 and agree with their
// documented meaning; a metachain contract address is a contract address.
func C20_AddressPredicates() {
	a := verif.BytesLen("a", 0, 40)
	id := verif.BytesLen("id", 0, 3)
	n := len(a)

	isSys := vmcommon.IsSystemAccountAddress(a)
	isSC := vmcommon.IsSmartContractAddress(a)
	isEmpty := vmcommon.IsEmptyAddress(a)
	isMetaID := vmcommon.IsMetachainIdentifier(id)
	onMeta := vmcommon.IsSmartContractOnMetachain(id, a)
	allowed := vmcommon.IsAllowedToSaveUnderKey(a)

	verif.Assert("empty-spec", isEmpty == allEq(a, 0, n, 0))
	if n >= 30 {
		verif.Assert("system-spec", isSys == allEq(a, 0, 30, 255))
	} else {
		verif.Assert("system-short", !isSys)
	}
	if n > 10 {
		verif.Assert("sc-spec", isSC == allEq(a, 0, 8, 0))
	} else {
		verif.Assert("sc-short", !isSC)
	}
	verif.Assert("metaid-spec", isMetaID == verif.And(len(id) > 0, allEq(id, 0, len(id), 255)))
	verif.Assert("meta-implies-sc", verif.Implies(onMeta, isSC))
	verif.Assert("meta-implies-id", verif.Implies(onMeta, isMetaID))
	if n > 25 {
		verif.Assert("meta-spec", onMeta == verif.And(isMetaID, isSC, allEq(a, 10, 25, 0)))
	} else {
		verif.Assert("meta-short", !onMeta)
	}
	if n >= 6 {
		pfx := verif.And(a[0] == 'E', a[1] == 'L', a[2] == 'R', a[3] == 'O', a[4] == 'N', a[5] == 'D')
		verif.Assert("protected-spec", allowed == !pfx)
	} else {
		verif.Assert("protected-short", allowed)
	}
	verif.Reach("sys", isSys)
	verif.Reach("sc", isSC)
	verif.Reach("onmeta", onMeta)
	verif.Reach("not-allowed", !allowed)
	verif.ObserveBool("isSys", isSys)
	verif.ObserveBool("isSC", isSC)
	verif.ObserveBool("onMeta", onMeta)
}

// C20_AddressConstants: the two protocol constants classify as documented.
func C20_AddressConstants() {
	sys := vmcommon.SystemAccountAddress
	esdt := vmcommon.ESDTSCAddress
	verif.Assert("sys-len", len(sys) == 32)
	verif.Assert("sys-is-system", vmcommon.IsSystemAccountAddress(sys))
	verif.Assert("sys-not-sc", !vmcommon.IsSmartContractAddress(sys))
	verif.Assert("esdt-len", len(esdt) == 32)
	verif.Assert("esdt-is-sc", vmcommon.IsSmartContractAddress(esdt))
	verif.Assert("esdt-not-system", !vmcommon.IsSystemAccountAddress(esdt))
	verif.Assert("esdt-on-meta", vmcommon.IsSmartContractOnMetachain([]byte{255}, esdt))
	verif.Assert("esdt-on-meta-2", vmcommon.IsSmartContractOnMetachain(esdt[len(esdt)-2:], esdt))
	verif.Assert("esdt-not-empty", !vmcommon.IsEmptyAddress(esdt))
	verif.Reach("done", true)
}

// C20_SafeSub: checked subtraction errors exactly on underflow.
func C20_SafeSub() {
	a, b := verif.U64("a"), verif.U64("b")
	r, err := vmcommon.SafeSubUint64(a, b)
	verif.Assert("err-iff-underflow", (err != nil) == (a < b))
	if err == nil {
		verif.Assert("difference", r == a-b)
		verif.Assert("no-wrap", r <= a)
		verif.Reach("ok", true)
	} else {
		verif.Assert("zero-on-error", r == 0)
		verif.Assert("is-overflow-error", err == vmcommon.ErrSubtractionOverflow)
		verif.Reach("underflow", true)
	}
	verif.ObserveU64("r", r)
}
