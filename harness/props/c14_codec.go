//go:build verif

package props

import (
	"math/big"

	"github.com/ElrondNetwork/elrond-vm-common/data"
	"github.com/ElrondNetwork/elrond-vm-common/data/esdt"
	"github.com/ElrondNetwork/elrond-vm-common/zz_verif/verif"
)

func init() {
	reg("C14_BigIntCasterRoundTrip", C14_BigIntCasterRoundTrip)
	reg("C14_BigIntCasterWordBoundaries", C14_BigIntCasterWordBoundaries)
	reg("C14_BigIntCasterDecodeTotal", C14_BigIntCasterDecodeTotal)
}

func magLen() int {
	if verif.Thorough() {
		return 6
	}
	return 4
}

// C14_BigIntCasterRoundTrip: for nil and every ±m with m < 256^k: the reported size equals
// the bytes written, the bytes are sign‖big-endian(m) (zero → 00 00, nil → 00) and decoding
// returns an equal value. The buffer is pre-filled with arbitrary bytes (MarshalTo is public).
func C14_BigIntCasterRoundTrip() {
	casterRoundTrip(true, func() []byte { return verif.BytesLen("mag", 0, magLen()) })
}

// C14_BigIntCasterWordBoundaries: the same for magnitudes around the machine-word sizes - 7, 8, 9
// bytes (and 15, 16, 17 thorough) with a non-zero leading byte, all other bytes arbitrary - so
// that 2^63 <= m < 2^64 and 2^64 <= m are in range (a decoder or encoder that goes through
// int64 / uint64 is wrong exactly there).
func C14_BigIntCasterWordBoundaries() {
	casterRoundTrip(false, func() []byte {
		lens := []int{7, 8, 9}
		if verif.Thorough() {
			lens = []int{7, 8, 9, 15, 16, 17}
		}
		m := verif.Bytes("mag", lens[verif.Choose("mag.len", len(lens))])
		verif.Assume(m[0] != 0)
		verif.Reach("top-bit-set", m[0] >= 0x80)
		return m
	})
}

func casterRoundTrip(canBeZero bool, genMag func() []byte) {
	c := &data.BigIntCaster{}
	var x *big.Int
	neg := false
	var mag []byte
	if !verif.Bool("nil") {
		mag = genMag()
		x = new(big.Int).SetBytes(mag)
		neg = verif.Bool("neg")
		if neg {
			x.Neg(x)
		}
	}
	size := c.Size(x)
	dirty := verif.Bool("dirty.buffer")
	buf := make([]byte, size)
	if dirty {
		buf = verif.Bytes("buf", size)
	}
	n, err := c.MarshalTo(x, buf)
	verif.Assert("marshal-ok", err == nil)
	verif.Assert("size-equals-written", n == size)
	if x == nil {
		verif.Assert("nil-is-single-zero", verif.And(size == 1, buf[0] == 0))
	} else {
		// strip leading zeros of mag → the canonical magnitude
		k := 0
		for k < len(mag) && mag[k] == 0 {
			k++
		}
		m := mag[k:]
		if len(m) == 0 {
			verif.Assert("zero-size", size == 2)
			verif.AssertExcept("zero-is-00-00", verif.And(buf[0] == 0, buf[1] == 0), "F11", dirty)
		} else {
			verif.Assert("size-is-len-plus-sign", size == len(m)+1)
			sign := byte(0)
			if neg {
				sign = 1
			}
			verif.Assert("sign-byte", buf[0] == sign)
			if size == len(m)+1 {
				verif.Assert("big-endian-magnitude", verif.BytesEq(buf[1:], m))
			}
		}
	}
	y, err2 := c.Unmarshal(buf[:n])
	zeroDirty := false
	if x != nil {
		zeroDirty = verif.And(dirty, x.Sign() == 0)
	}
	verif.AssertExcept("unmarshal-ok", err2 == nil, "F11", zeroDirty)
	if err2 != nil {
		return
	}
	if x == nil {
		verif.Assert("roundtrip-nil", y == nil)
	} else {
		verif.AssertExcept("roundtrip-present", y != nil, "F11", zeroDirty)
		if y != nil {
			verif.AssertExcept("roundtrip-equal", y.Cmp(x) == 0, "F11", zeroDirty)
			verif.Assert("equal-agrees", verif.Or(zeroDirty, c.Equal(x, y)))
		}
	}
	if x != nil {
		verif.Reach("negative", verif.And(neg, x.Sign() < 0))
		if canBeZero {
			verif.Reach("zero", x.Sign() == 0)
		}
	} else {
		verif.Reach("nil", true)
	}
	verif.ObserveBytes("buf", buf)
}

// C14_BigIntCasterDecodeTotal: Unmarshal on every buffer up to the bound returns a value or an
// error and never panics; accepted buffers have a 0/1 sign byte.
func C14_BigIntCasterDecodeTotal() {
	c := &data.BigIntCaster{}
	n := 5
	if verif.Thorough() {
		n = 7
	}
	buf := verif.BytesLen("buf", 0, n)
	y, err := c.Unmarshal(buf)
	if err == nil {
		verif.Assert("nonempty", len(buf) > 0)
		if len(buf) == 1 {
			verif.Assert("single-byte-is-nil", y == nil)
		} else {
			verif.Assert("value-present", y != nil)
			zero2 := len(buf) == 2 && buf[1] == 0
			if !zero2 {
				verif.Assert("sign-byte-valid", buf[0] <= 1)
			}
			if y != nil {
				m := new(big.Int).SetBytes(buf[1:])
				verif.Assert("magnitude", new(big.Int).Abs(y).Cmp(m) == 0)
				verif.Assert("sign", verif.Or(zero2, (y.Sign() < 0) == verif.And(buf[0] == 1, m.Sign() != 0)))
			}
		}
		verif.Reach("accepted", true)
	} else {
		verif.Assert("error-shape", y == nil)
		verif.Reach("rejected", true)
	}
	verif.ObserveBool("ok", err == nil)
}

// ---------------------------------------------------------------------------------------
// (b)-(d): the generated protobuf code against an in-harness reference encoder

func refVarint(v uint64) []byte {
	var out []byte
	for v >= 0x80 {
		out = append(out, byte(v)|0x80)
		v >>= 7
	}
	return append(out, byte(v))
}

func refBytesField(tag byte, b []byte, always bool) []byte {
	if len(b) == 0 && !always {
		return nil
	}
	out := []byte{tag}
	out = append(out, refVarint(uint64(len(b)))...)
	return append(out, b...)
}

func refBig(x *big.Int) []byte {
	if x == nil {
		return []byte{0}
	}
	if x.Sign() == 0 {
		return []byte{0, 0}
	}
	sign := byte(0)
	if x.Sign() < 0 {
		sign = 1
	}
	return append([]byte{sign}, new(big.Int).Abs(x).Bytes()...)
}

func refMeta(m *esdt.MetaData) []byte {
	var out []byte
	if m.Nonce != 0 {
		out = append(append(out, 0x08), refVarint(m.Nonce)...)
	}
	out = append(out, refBytesField(0x12, m.Name, false)...)
	out = append(out, refBytesField(0x1a, m.Creator, false)...)
	if m.Royalties != 0 {
		out = append(append(out, 0x20), refVarint(uint64(m.Royalties))...)
	}
	out = append(out, refBytesField(0x2a, m.Hash, false)...)
	for _, u := range m.URIs {
		out = append(out, refBytesField(0x32, u, true)...)
	}
	out = append(out, refBytesField(0x3a, m.Attributes, false)...)
	return out
}

func refToken(t *esdt.ESDigitalToken) []byte {
	var out []byte
	if t.Type != 0 {
		out = append(append(out, 0x08), refVarint(uint64(t.Type))...)
	}
	out = append(out, refBytesField(0x12, refBig(t.Value), true)...)
	out = append(out, refBytesField(0x1a, t.Properties, false)...)
	if t.TokenMetaData != nil {
		out = append(out, refBytesField(0x22, refMeta(t.TokenMetaData), true)...)
	}
	out = append(out, refBytesField(0x2a, t.Reserved, false)...)
	return out
}

func smallBig(tag string) *big.Int {
	switch verif.Choose(tag+".kind", 3) {
	case 0:
		return nil
	case 1:
		return new(big.Int).SetBytes(verif.BytesLen(tag+".mag", 0, 2))
	}
	x := new(big.Int).SetBytes(verif.BytesLen(tag+".mag", 1, 2))
	return x.Neg(x)
}

// small7 is a scalar field value: symbolic below 2^7 in the thorough tier; one of the boundary
// values 0 / 1 / 127 / 128 (two-byte varint) in the quick tier - the full 64-bit range of the
// varint kernel is C14_VarintAllWidths' subject.
func small7(tag string) uint64 {
	if verif.Thorough() {
		v := verif.U8(tag)
		verif.Assume(v < 128)
		return uint64(v)
	}
	return []uint64{0, 1, 127, 128}[verif.Choose(tag, 4)]
}

// widthBoundary is a scalar at a varint width boundary: 0 / 1 / 127 / 128 in the quick tier,
// every boundary 2^(7k)-1, 2^(7k) of the type plus its maximum in the thorough tier.
func widthBoundary(tag string, bits int) uint64 {
	if !verif.Thorough() {
		return []uint64{0, 1, 127, 128}[verif.Choose(tag, 4)]
	}
	vals := []uint64{0, 1}
	for k := 7; k < bits; k += 7 {
		vals = append(vals, uint64(1)<<uint(k)-1, uint64(1)<<uint(k))
	}
	if bits == 64 {
		vals = append(vals, ^uint64(0))
	} else {
		vals = append(vals, uint64(1)<<uint(bits)-1)
	}
	return vals[verif.Choose(tag, len(vals))]
}

func arbMeta(tag string) *esdt.MetaData {
	m := &esdt.MetaData{Nonce: small7(tag + ".nonce"), Royalties: uint32(small7(tag + ".royalties"))}
	m.Name = verif.BytesLen(tag+".name", 0, 1)
	m.Creator = verif.BytesLen(tag+".creator", 0, 1)
	m.Hash = verif.BytesLen(tag+".hash", 0, 1)
	m.Attributes = verif.BytesLen(tag+".attr", 0, 1)
	n := verif.Choose(tag+".nuris", 3)
	for i := 0; i < n; i++ {
		m.URIs = append(m.URIs, verif.BytesLen(tag+".uri", 0, 1))
	}
	return m
}

func metaRoundEq(a, b *esdt.MetaData) bool {
	if a == nil || b == nil {
		return a == nil && b == nil
	}
	if len(a.URIs) != len(b.URIs) {
		return false
	}
	r := verif.And(a.Nonce == b.Nonce, a.Royalties == b.Royalties, len(a.Name) == len(b.Name), verif.BytesEq(a.Name, b.Name),
		len(a.Creator) == len(b.Creator), verif.BytesEq(a.Creator, b.Creator), len(a.Hash) == len(b.Hash), verif.BytesEq(a.Hash, b.Hash),
		len(a.Attributes) == len(b.Attributes), verif.BytesEq(a.Attributes, b.Attributes))
	for i := range a.URIs {
		r = verif.And(r, len(a.URIs[i]) == len(b.URIs[i]), verif.BytesEq(a.URIs[i], b.URIs[i]))
	}
	return r
}

func init() {
	reg("C14_VarintAllWidths", C14_VarintAllWidths)
	reg("C14_MetaDataRoundTrip", C14_MetaDataRoundTrip)
	reg("C14_TokenRoundTrip", C14_TokenRoundTrip)
	reg("C14_RolesRoundTrip", C14_RolesRoundTrip)
	reg("C14_TokenDecodeTotal", C14_TokenDecodeTotal)
	reg("C14_RolesDecodeTotal", C14_RolesDecodeTotal)
	reg("C14_MetaDataDecodeTotal", C14_MetaDataDecodeTotal)
}

// C14_VarintAllWidths: the varint kernel over all 64-bit values (10 length classes), through
// MetaData.Nonce: bytes = 08‖varint(v), size agrees, decode returns v.
func C14_VarintAllWidths() {
	v := verif.U64("v")
	verif.AllocBound(16)
	m := &esdt.MetaData{Nonce: v}
	b, err := m.Marshal()
	verif.Assert("marshal-ok", err == nil)
	verif.Assert("size-equals-length", len(b) == m.Size())
	var ref []byte
	if v != 0 {
		ref = append([]byte{0x08}, refVarint(v)...)
	}
	verif.Assert("matches-reference", verif.And(len(b) == len(ref), verif.BytesEq(b, ref)))
	var u esdt.MetaData
	err = u.Unmarshal(b)
	verif.Assert("unmarshal-ok", err == nil)
	verif.Assert("roundtrip", u.Nonce == v)
	verif.Reach("ten-bytes", len(b) == 11)
	verif.Reach("one-byte", len(b) == 2)
	verif.ObserveBytes("b", b)
}

func C14_MetaDataRoundTrip() {
	verif.AllocBound(64)
	m := arbMeta("m")
	b, err := m.Marshal()
	verif.Assert("marshal-ok", err == nil)
	verif.Assert("size-equals-length", len(b) == m.Size())
	ref := refMeta(m)
	verif.Assert("matches-reference", verif.And(len(b) == len(ref), verif.BytesEq(b, ref)))
	b2, _ := m.Marshal()
	verif.Assert("deterministic", verif.And(len(b) == len(b2), verif.BytesEq(b, b2)))
	var u esdt.MetaData
	err = u.Unmarshal(b)
	verif.Assert("unmarshal-ok", err == nil)
	verif.Assert("roundtrip", metaRoundEq(m, &u))
	verif.Reach("two-uris", len(m.URIs) == 2)
	verif.ObserveBytes("b", b)
}

func C14_TokenRoundTrip() {
	verif.AllocBound(96)
	t := &esdt.ESDigitalToken{Type: uint32(widthBoundary("type", 32)), Value: smallBig("value")}
	t.Properties = verif.BytesLen("props", 0, 2)
	t.Reserved = verif.BytesLen("reserved", 0, 1)
	if verif.Bool("hasMeta") {
		// every metadata field symbolic is C14_MetaDataRoundTrip's subject; here the nesting
		t.TokenMetaData = &esdt.MetaData{Nonce: widthBoundary("m.nonce", 64), Name: verif.BytesLen("m.name", 0, 1), URIs: [][]byte{verif.BytesLen("m.uri", 0, 1)}}
	}
	b, err := t.Marshal()
	verif.Assert("marshal-ok", err == nil)
	verif.Assert("size-equals-length", len(b) == t.Size())
	ref := refToken(t)
	verif.Assert("matches-reference", verif.And(len(b) == len(ref), verif.BytesEq(b, ref)))
	u := &esdt.ESDigitalToken{}
	u.Reset()
	err = u.Unmarshal(b)
	verif.Assert("unmarshal-ok", err == nil)
	verif.Assert("roundtrip-type", u.Type == t.Type)
	if t.Value == nil {
		verif.Assert("roundtrip-value-nil", u.Value == nil)
	} else {
		verif.Assert("roundtrip-value-present", u.Value != nil)
		if u.Value != nil {
			verif.Assert("roundtrip-value", u.Value.Cmp(t.Value) == 0)
		}
	}
	verif.Assert("roundtrip-props", verif.And(len(u.Properties) == len(t.Properties), verif.BytesEq(u.Properties, t.Properties)))
	verif.Assert("roundtrip-reserved", verif.And(len(u.Reserved) == len(t.Reserved), verif.BytesEq(u.Reserved, t.Reserved)))
	verif.Assert("roundtrip-metadata", metaRoundEq(t.TokenMetaData, u.TokenMetaData))
	if t.Value != nil {
		verif.Reach("negative", t.Value.Sign() < 0)
	}
	verif.Reach("with-metadata", t.TokenMetaData != nil)
	verif.ObserveBytes("b", b)
}

func C14_RolesRoundTrip() {
	verif.AllocBound(64)
	r := &esdt.ESDTRoles{}
	n := verif.Choose("n", 3)
	for i := 0; i < n; i++ {
		r.Roles = append(r.Roles, verif.BytesLen("role", 0, 2))
	}
	b, err := r.Marshal()
	verif.Assert("marshal-ok", err == nil)
	verif.Assert("size-equals-length", len(b) == r.Size())
	var ref []byte
	for _, x := range r.Roles {
		ref = append(ref, refBytesField(0x0a, x, true)...)
	}
	verif.Assert("matches-reference", verif.And(len(b) == len(ref), verif.BytesEq(b, ref)))
	verif.Assert("empty-list-is-empty-string", (n == 0) == (len(b) == 0))
	var u esdt.ESDTRoles
	err = u.Unmarshal(b)
	verif.Assert("unmarshal-ok", err == nil)
	verif.Assert("roundtrip-count", len(u.Roles) == len(r.Roles))
	if len(u.Roles) == len(r.Roles) {
		for i := range r.Roles {
			verif.Assert("roundtrip-role", verif.And(len(u.Roles[i]) == len(r.Roles[i]), verif.BytesEq(u.Roles[i], r.Roles[i])))
		}
	}
	verif.Reach("two-roles", n == 2)
	verif.ObserveBytes("b", b)
}

func decodeLen() int {
	if verif.Thorough() {
		return 6
	}
	return 4
}

func C14_TokenDecodeTotal() {
	buf := verif.BytesLen("buf", 0, decodeLen())
	verif.AllocBound(len(buf) + 2)
	u := &esdt.ESDigitalToken{}
	err := u.Unmarshal(buf)
	verif.Reach("accepted", err == nil)
	verif.Reach("rejected", err != nil)
	verif.ObserveBool("ok", err == nil)
}

func C14_RolesDecodeTotal() {
	buf := verif.BytesLen("buf", 0, decodeLen())
	verif.AllocBound(len(buf) + 2)
	u := &esdt.ESDTRoles{}
	err := u.Unmarshal(buf)
	verif.Reach("accepted", err == nil)
	verif.Reach("rejected", err != nil)
	verif.ObserveBool("ok", err == nil)
}

func C14_MetaDataDecodeTotal() {
	buf := verif.BytesLen("buf", 0, decodeLen())
	verif.AllocBound(len(buf) + 2)
	u := &esdt.MetaData{}
	err := u.Unmarshal(buf)
	verif.Reach("accepted", err == nil)
	verif.Reach("rejected", err != nil)
	verif.ObserveBool("ok", err == nil)
}

func init() { reg("C14_LengthPrefixBoundaries", C14_LengthPrefixBoundaries) }

// C14_LengthPrefixBoundaries: field and nested-message lengths around the one-byte/two-byte
// varint boundary (127/128), independently for the fields that precede the nested metadata and
// for the metadata itself, so that every length prefix is sized from its own length.
func C14_LengthPrefixBoundaries() {
	verif.AllocBound(700)
	propLens := []int{0, 119, 120, 121, 122, 127, 128, 130}
	nameLens := []int{1, 123, 124, 125, 126, 127, 128, 130}
	t := &esdt.ESDigitalToken{Type: 1, Value: big.NewInt(int64(verif.Choose("value", 2)))}
	t.Properties = verif.Bytes("props", propLens[verif.Choose("props.len", len(propLens))])
	if verif.Bool("hasMeta") {
		t.TokenMetaData = &esdt.MetaData{Nonce: 1, Name: verif.Bytes("name", nameLens[verif.Choose("name.len", len(nameLens))])}
		if verif.Bool("hasCreator") {
			t.TokenMetaData.Creator = verif.Bytes("creator", 32)
		}
	}
	if verif.Bool("hasReserved") {
		t.Reserved = verif.Bytes("reserved", 1)
	}
	size := t.Size()
	ref := refToken(t)
	verif.Assert("size-equals-reference-length", size == len(ref))
	var b []byte
	var err error
	panicked := verif.Try(func() { b, err = t.Marshal() })
	verif.Assert("marshal-does-not-panic", !panicked)
	if panicked {
		return
	}
	verif.Assert("marshal-ok", err == nil)
	verif.Assert("matches-reference", verif.And(len(b) == len(ref), verif.BytesEq(b, ref)))
	u := &esdt.ESDigitalToken{}
	err = u.Unmarshal(b)
	verif.Assert("unmarshal-ok", err == nil)
	verif.Assert("roundtrip-props", verif.And(len(u.Properties) == len(t.Properties), verif.BytesEq(u.Properties, t.Properties)))
	verif.Assert("roundtrip-metadata", metaRoundEq(t.TokenMetaData, u.TokenMetaData))
	verif.Assert("roundtrip-reserved", verif.And(len(u.Reserved) == len(t.Reserved), verif.BytesEq(u.Reserved, t.Reserved)))
	if t.TokenMetaData != nil {
		verif.Reach("two-byte-nested-prefix", len(t.TokenMetaData.Name) >= 128)
	}
	verif.Reach("two-byte-props-prefix", len(t.Properties) >= 128)
}

func init() {
	reg("C14_TokenDecodeLongVarints", C14_TokenDecodeLongVarints)
	reg("C14_MetaDataDecodeLongVarints", C14_MetaDataDecodeLongVarints)
	reg("C14_RolesDecodeLongVarints", C14_RolesDecodeLongVarints)
}

// longVarintBuf is a structured adversarial buffer the short exhaustive buffers cannot reach:
// optionally one complete leading field, then an arbitrary tag byte followed by a varint of 1, 2,
// 5, 9 or 10 bytes (1..10 thorough) whose 7-bit groups are arbitrary - so declared lengths,
// scalars and skipped fields up to and beyond 2^63 are in range - then 0..2 arbitrary bytes.
func longVarintBuf(lead []byte) []byte {
	var buf []byte
	if verif.Bool("lead") {
		buf = append(buf, lead...)
	}
	buf = append(buf, verif.U8("tag"))
	ms := []int{1, 2, 5, 9, 10}
	if verif.Thorough() {
		ms = []int{1, 2, 3, 4, 5, 6, 7, 8, 9, 10}
	}
	m := ms[verif.Choose("varint.len", len(ms))]
	for i := 0; i < m; i++ {
		b := verif.U8("varint.byte")
		if i < m-1 {
			b |= 0x80
		} else {
			b &= 0x7f
		}
		buf = append(buf, b)
	}
	buf = append(buf, verif.BytesLen("tail", 0, 2)...)
	return buf
}

func C14_TokenDecodeLongVarints() {
	buf := longVarintBuf([]byte{0x08, 0x01})
	verif.AllocBound(len(buf) + 2)
	u := &esdt.ESDigitalToken{}
	err := u.Unmarshal(buf)
	verif.Reach("accepted", err == nil)
	verif.Reach("rejected", err != nil)
	verif.ObserveBool("ok", err == nil)
}

func C14_MetaDataDecodeLongVarints() {
	buf := longVarintBuf([]byte{0x08, 0x01})
	verif.AllocBound(len(buf) + 2)
	u := &esdt.MetaData{}
	err := u.Unmarshal(buf)
	verif.Reach("accepted", err == nil)
	verif.Reach("rejected", err != nil)
	verif.ObserveBool("ok", err == nil)
}

func C14_RolesDecodeLongVarints() {
	buf := longVarintBuf([]byte{0x0a, 0x00})
	verif.AllocBound(len(buf) + 2)
	u := &esdt.ESDTRoles{}
	err := u.Unmarshal(buf)
	verif.Reach("accepted", err == nil)
	verif.Reach("rejected", err != nil)
	verif.ObserveBool("ok", err == nil)
}
