//go:build verif

package props

import (
	"math/big"

	"github.com/ElrondNetwork/elrond-vm-common/data"
	"github.com/ElrondNetwork/elrond-vm-common/zz_verif/verif"
)

func init() {
	reg("C14_BigIntCasterRoundTrip", C14_BigIntCasterRoundTrip)
	reg("C14_BigIntCasterDecodeTotal", C14_BigIntCasterDecodeTotal)
}

func magLen() int {
	if verif.Thorough() {
		return 6
	}
	return 4
}

// C14_BigIntCasterRoundTrip: for nil and every ±m with m < 256^k: the reported size equals
// the bytes written, the bytes are sign‖big-endian(m) (zero → 00 00, nil → 00) and decoding
// returns an equal value. The buffer is pre-filled with arbitrary bytes (MarshalTo is public).
func C14_BigIntCasterRoundTrip() {
	c := &data.BigIntCaster{}
	var x *big.Int
	neg := false
	var mag []byte
	if !verif.Bool("nil") {
		mag = verif.BytesLen("mag", 0, magLen())
		x = new(big.Int).SetBytes(mag)
		neg = verif.Bool("neg")
		if neg {
			x.Neg(x)
		}
	}
	size := c.Size(x)
	dirty := verif.Bool("dirty.buffer")
	buf := make([]byte, size)
	if dirty {
		buf = verif.Bytes("buf", size)
	}
	n, err := c.MarshalTo(x, buf)
	verif.Assert("marshal-ok", err == nil)
	verif.Assert("size-equals-written", n == size)
	if x == nil {
		verif.Assert("nil-is-single-zero", verif.And(size == 1, buf[0] == 0))
	} else {
		// strip leading zeros of mag → the canonical magnitude
		k := 0
		for k < len(mag) && mag[k] == 0 {
			k++
		}
		m := mag[k:]
		if len(m) == 0 {
			verif.Assert("zero-size", size == 2)
			verif.AssertExcept("zero-is-00-00", verif.And(buf[0] == 0, buf[1] == 0), "F11", dirty)
		} else {
			verif.Assert("size-is-len-plus-sign", size == len(m)+1)
			sign := byte(0)
			if neg {
				sign = 1
			}
			verif.Assert("sign-byte", buf[0] == sign)
			if size == len(m)+1 {
				verif.Assert("big-endian-magnitude", verif.BytesEq(buf[1:], m))
			}
		}
	}
	y, err2 := c.Unmarshal(buf[:n])
	zeroDirty := verif.And(dirty, x != nil, x.Sign() == 0)
	verif.AssertExcept("unmarshal-ok", err2 == nil, "F11", zeroDirty)
	if err2 != nil {
		return
	}
	if x == nil {
		verif.Assert("roundtrip-nil", y == nil)
	} else {
		verif.AssertExcept("roundtrip-present", y != nil, "F11", zeroDirty)
		if y != nil {
			verif.AssertExcept("roundtrip-equal", y.Cmp(x) == 0, "F11", zeroDirty)
			verif.Assert("equal-agrees", verif.Or(zeroDirty, c.Equal(x, y)))
		}
	}
	verif.Reach("negative", verif.And(x != nil, neg, x.Sign() < 0))
	verif.Reach("zero", verif.And(x != nil, x.Sign() == 0))
	verif.Reach("nil", x == nil)
	verif.ObserveBytes("buf", buf)
}

// C14_BigIntCasterDecodeTotal: Unmarshal on every buffer up to the bound returns a value or an
// error and never panics; accepted buffers have a 0/1 sign byte.
func C14_BigIntCasterDecodeTotal() {
	c := &data.BigIntCaster{}
	n := 5
	if verif.Thorough() {
		n = 7
	}
	buf := verif.BytesLen("buf", 0, n)
	y, err := c.Unmarshal(buf)
	if err == nil {
		verif.Assert("nonempty", len(buf) > 0)
		if len(buf) == 1 {
			verif.Assert("single-byte-is-nil", y == nil)
		} else {
			verif.Assert("value-present", y != nil)
			zero2 := len(buf) == 2 && buf[1] == 0
			if !zero2 {
				verif.Assert("sign-byte-valid", buf[0] <= 1)
			}
			if y != nil {
				m := new(big.Int).SetBytes(buf[1:])
				verif.Assert("magnitude", new(big.Int).Abs(y).Cmp(m) == 0)
				verif.Assert("sign", verif.Or(zero2, (y.Sign() < 0) == verif.And(buf[0] == 1, m.Sign() != 0)))
			}
		}
		verif.Reach("accepted", true)
	} else {
		verif.Assert("error-shape", y == nil)
		verif.Reach("rejected", true)
	}
	verif.ObserveBool("ok", err == nil)
}
