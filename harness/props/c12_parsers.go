//go:build verif

package props

import (
	"encoding/hex"

	vmcommon "github.com/ElrondNetwork/elrond-vm-common"
	"github.com/ElrondNetwork/elrond-vm-common/parsers"
	"github.com/ElrondNetwork/elrond-vm-common/txDataBuilder"
	"github.com/ElrondNetwork/elrond-vm-common/zz_verif/verif"
	"github.com/ElrondNetwork/elrond-vm-common/zz_verif/world"
)

func init() {
	reg("C12_CallArgsTotal", C12_CallArgsTotal)
	reg("C12_DeployArgsTotal", C12_DeployArgsTotal)
	reg("C12_StorageUpdatesTotal", C12_StorageUpdatesTotal)
	reg("C12_CallArgsRoundTrip", C12_CallArgsRoundTrip)
	reg("C12_DeployRoundTrip", C12_DeployRoundTrip)
	reg("C12_StorageUpdatesRoundTrip", C12_StorageUpdatesRoundTrip)
	reg("C12_TransferParserTotal", C12_TransferParserTotal)
}

func strMax() int {
	if verif.Thorough() {
		return 8
	}
	return 5
}

// C12_CallArgsTotal: the call-arguments parser returns a result or an error on every string.
func C12_CallArgsTotal() {
	data := string(verif.BytesLen("data", 0, strMax()))
	verif.AllocBound(len(data) + 2)
	p := parsers.NewCallArgsParser()
	f, args, err := p.ParseData(data)
	if err == nil {
		verif.Assert("function-nonempty", len(f) > 0)
		verif.Assert("function-is-prefix", len(f) <= len(data))
		verif.Assert("args-not-nil", args != nil)
		verif.Reach("parsed", true)
		verif.Reach("parsed-with-arg", len(args) > 0)
	} else {
		verif.Assert("error-shape", verif.And(f == "", args == nil))
		verif.Reach("rejected", true)
	}
	verif.ObserveBool("ok", err == nil)
	verif.ObserveStr("f", f)
}

func C12_DeployArgsTotal() {
	data := string(verif.BytesLen("data", 0, strMax()+1))
	verif.AllocBound(len(data) + 2)
	p := parsers.NewDeployArgsParser()
	r, err := p.ParseData(data)
	if err == nil {
		verif.Assert("result-present", r != nil)
		verif.Assert("vmtype-nonempty", len(r.VMType) > 0)
		verif.Reach("parsed", true)
	} else {
		verif.Assert("error-shape", r == nil)
		verif.Reach("rejected", true)
	}
	verif.ObserveBool("ok", err == nil)
}

func C12_StorageUpdatesTotal() {
	data := string(verif.BytesLen("data", 0, strMax()))
	verif.AllocBound(len(data) + 2)
	p := parsers.NewStorageUpdatesParser()
	ups, err := p.GetStorageUpdates(data)
	if err == nil {
		verif.Assert("updates-nonempty", len(ups) > 0)
		verif.Reach("parsed", true)
	} else {
		verif.Assert("error-shape", ups == nil)
		verif.Reach("rejected", true)
	}
	verif.ObserveBool("ok", err == nil)
}

func noAt(b []byte) bool {
	r := true
	for _, c := range b {
		r = verif.And(r, c != '@')
	}
	return r
}

func argLen() int {
	if verif.Thorough() {
		return 3
	}
	return 2
}

// C12_CallArgsRoundTrip: for every non-empty '@'-free function name and every argument list,
// parsing what the tx-data builder produced yields the same function and arguments.
func C12_CallArgsRoundTrip() {
	fn := verif.BytesLen("fn", 1, 3)
	verif.Assume(noAt(fn))
	n := verif.Choose("nargs", 4)
	b := txDataBuilder.NewBuilder().Func(string(fn))
	var args [][]byte
	for i := 0; i < n; i++ {
		a := verif.BytesLen("arg", 0, argLen())
		args = append(args, a)
		b = b.Bytes(a)
	}
	data := b.ToString()
	f, got, err := parsers.NewCallArgsParser().ParseData(data)
	verif.Assert("parses", err == nil)
	verif.Assert("same-function", f == string(fn))
	verif.Assert("same-arg-count", len(got) == len(args))
	if len(got) == len(args) {
		for i := range args {
			verif.Assert("same-arg", verif.BytesEq(got[i], args[i]))
		}
	}
	verif.Assert("bytes-equals-string", string(b.ToBytes()) == data)
	verif.Reach("three-args", n == 3)
	verif.ObserveStr("data", data)
}

func C12_DeployRoundTrip() {
	code := verif.BytesLen("code", 1, 2)
	vmType := verif.BytesLen("vmtype", 1, 2)
	meta := verif.BytesLen("meta", 0, 3)
	n := verif.Choose("nargs", 3)
	b := txDataBuilder.NewBuilder().Func(hex.EncodeToString(code)).Bytes(vmType).Bytes(meta)
	var args [][]byte
	for i := 0; i < n; i++ {
		a := verif.BytesLen("arg", 0, 2)
		args = append(args, a)
		b = b.Bytes(a)
	}
	r, err := parsers.NewDeployArgsParser().ParseData(b.ToString())
	verif.Assert("parses", verif.And(err == nil, r != nil))
	if r == nil {
		return
	}
	verif.Assert("same-code", verif.BytesEq(r.Code, code))
	verif.Assert("same-vmtype", verif.BytesEq(r.VMType, vmType))
	verif.Assert("same-metadata", r.CodeMetadata == vmcommon.CodeMetadataFromBytes(meta))
	verif.Assert("same-arg-count", len(r.Arguments) == len(args))
	if len(r.Arguments) == len(args) {
		for i := range args {
			verif.Assert("same-arg", verif.BytesEq(r.Arguments[i], args[i]))
		}
	}
	verif.Reach("two-args", n == 2)
}

// C12_StorageUpdatesRoundTrip: GetStorageUpdates(CreateDataFromStorageUpdate(u)) = u. The empty
// list and a first update with an empty offset cannot round-trip by construction of the format
// (leading '@' is trimmed, the empty string does not tokenise): finding F9.
func C12_StorageUpdatesRoundTrip() {
	n := verif.Choose("n", 3)
	var ups []*vmcommon.StorageUpdate
	for i := 0; i < n; i++ {
		ups = append(ups, &vmcommon.StorageUpdate{Offset: verif.BytesLen("off", 0, 2), Data: verif.BytesLen("data", 0, 2)})
	}
	p := parsers.NewStorageUpdatesParser()
	data := p.CreateDataFromStorageUpdate(ups)
	got, err := p.GetStorageUpdates(data)
	f9 := n == 0 || len(ups[0].Offset) == 0
	verif.AssertExcept("parses", err == nil, "F9", f9)
	if err != nil {
		return
	}
	verif.AssertExcept("same-count", len(got) == len(ups), "F9", f9)
	if len(got) == len(ups) {
		for i := range ups {
			verif.Assert("same-update", verif.And(verif.BytesEq(got[i].Offset, ups[i].Offset), verif.BytesEq(got[i].Data, ups[i].Data)))
		}
	}
	verif.Reach("two-updates", n == 2)
}

// C12_TransferParserTotal: the ESDT-transfer parser returns a result or an error for every
// function name and argument list.
func C12_TransferParserTotal() {
	w := world.New(world.Config{})
	p, _ := parsers.NewESDTTransferParser(w.Codec)
	var fn string
	var spec string
	switch verif.Choose("fn", 4) {
	case 0:
		fn, spec = vmcommon.BuiltInFunctionESDTTransfer, "tnb"
	case 1:
		fn, spec = vmcommon.BuiltInFunctionESDTNFTTransfer, "tnnab"
	case 2:
		fn, spec = vmcommon.BuiltInFunctionMultiESDTNFTTransfer, "antnntnn|antnn"
	default:
		fn, spec = string(verif.BytesLen("fname", 0, 2)), "bb"
	}
	snd := addr32("snd")
	rcv := snd
	if verif.Bool("rcv.differs") {
		rcv = addr32("rcv")
		if fn == vmcommon.BuiltInFunctionMultiESDTNFTTransfer {
			spec = "ntnntnn|ntnn"
		}
	}
	args := wildArgs(spec)
	verif.AllocBound(len(args) + 4)
	var res *vmcommon.ParsedESDTTransfers
	var err error
	panicked := verif.Try(func() { res, err = p.ParseESDTTransfers(snd, rcv, fn, args) })
	verif.Assert("no-panic", !panicked)
	if panicked {
		return
	}
	if err == nil {
		verif.Assert("result-present", res != nil)
		verif.Reach("parsed", true)
	} else {
		verif.Assert("error-shape", res == nil)
		verif.Reach("rejected", true)
	}
	verif.ObserveBool("ok", err == nil)
}
