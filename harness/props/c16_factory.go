//go:build verif

package props

import (
	vmcommon "github.com/ElrondNetwork/elrond-vm-common"
	"github.com/ElrondNetwork/elrond-vm-common/builtInFunctions"
	"github.com/ElrondNetwork/elrond-vm-common/check"
	"github.com/ElrondNetwork/elrond-vm-common/zz_verif/verif"
)

func init() {
	reg("C16_ZeroEntryRejected", C16_ZeroEntryRejected)
	reg("C16_FactoryRejectsBadInitialSchedule", C16_FactoryRejectsBadInitialSchedule)
	reg("C16_RejectedChangeWritesNothing", C16_RejectedChangeWritesNothing)
}

// anySchedule is an arbitrary schedule as a node may hand it over: every entry any 64-bit
// value, zero included (schedule() is the accepted subset).
func anySchedule(tag string) *vmcommon.GasCost {
	g := &vmcommon.GasCost{}
	g.BaseOperationCost = vmcommon.BaseOperationCost{
		StorePerByte: verif.U64(tag + ".StorePerByte"), ReleasePerByte: verif.U64(tag + ".ReleasePerByte"),
		DataCopyPerByte: verif.U64(tag + ".DataCopyPerByte"), PersistPerByte: verif.U64(tag + ".PersistPerByte"),
		CompilePerByte: verif.U64(tag + ".CompilePerByte"), AoTPreparePerByte: verif.U64(tag + ".AoTPreparePerByte"),
	}
	g.BuiltInCost = vmcommon.BuiltInCost{
		ChangeOwnerAddress: verif.U64(tag + ".ChangeOwnerAddress"), ClaimDeveloperRewards: verif.U64(tag + ".ClaimDeveloperRewards"),
		SaveUserName: verif.U64(tag + ".SaveUserName"), SaveKeyValue: verif.U64(tag + ".SaveKeyValue"),
		ESDTTransfer: verif.U64(tag + ".ESDTTransfer"), ESDTBurn: verif.U64(tag + ".ESDTBurn"),
		ESDTLocalMint: verif.U64(tag + ".ESDTLocalMint"), ESDTLocalBurn: verif.U64(tag + ".ESDTLocalBurn"),
		ESDTNFTCreate: verif.U64(tag + ".ESDTNFTCreate"), ESDTNFTAddQuantity: verif.U64(tag + ".ESDTNFTAddQuantity"),
		ESDTNFTBurn: verif.U64(tag + ".ESDTNFTBurn"), ESDTNFTTransfer: verif.U64(tag + ".ESDTNFTTransfer"),
		ESDTNFTChangeCreateOwner: verif.U64(tag + ".ESDTNFTChangeCreateOwner"), ESDTNFTMultiTransfer: verif.U64(tag + ".ESDTNFTMultiTransfer"),
		ESDTNFTAddURI: verif.U64(tag + ".ESDTNFTAddURI"), ESDTNFTUpdateAttributes: verif.U64(tag + ".ESDTNFTUpdateAttributes"),
	}
	return g
}

// allNonZero is "every entry of the schedule is non-zero" as one boolean term.
func allNonZero(g *vmcommon.GasCost) bool {
	b, c := g.BaseOperationCost, g.BuiltInCost
	return verif.And(b.StorePerByte != 0, b.ReleasePerByte != 0, b.DataCopyPerByte != 0, b.PersistPerByte != 0,
		b.CompilePerByte != 0, b.AoTPreparePerByte != 0,
		c.ChangeOwnerAddress != 0, c.ClaimDeveloperRewards != 0, c.SaveUserName != 0, c.SaveKeyValue != 0, c.ESDTTransfer != 0,
		c.ESDTBurn != 0, c.ESDTLocalMint != 0, c.ESDTLocalBurn != 0, c.ESDTNFTCreate != 0, c.ESDTNFTAddQuantity != 0,
		c.ESDTNFTBurn != 0, c.ESDTNFTTransfer != 0, c.ESDTNFTChangeCreateOwner != 0, c.ESDTNFTMultiTransfer != 0,
		c.ESDTNFTAddURI != 0, c.ESDTNFTUpdateAttributes != 0)
}

// C16_ZeroEntryRejected: the validator the factory relies on reports an error exactly when some
// entry of the section is zero - for every one of the 6 + 16 entries.
func C16_ZeroEntryRejected() {
	g := anySchedule("z")
	b, c := g.BaseOperationCost, g.BuiltInCost
	errB := check.ForZeroUintFields(b)
	baseOK := verif.And(b.StorePerByte != 0, b.ReleasePerByte != 0, b.DataCopyPerByte != 0, b.PersistPerByte != 0,
		b.CompilePerByte != 0, b.AoTPreparePerByte != 0)
	verif.Assert("base-section-rejected-iff-some-zero", (errB == nil) == baseOK)
	errC := check.ForZeroUintFields(c)
	builtOK := verif.And(c.ChangeOwnerAddress != 0, c.ClaimDeveloperRewards != 0, c.SaveUserName != 0, c.SaveKeyValue != 0, c.ESDTTransfer != 0,
		c.ESDTBurn != 0, c.ESDTLocalMint != 0, c.ESDTLocalBurn != 0, c.ESDTNFTCreate != 0, c.ESDTNFTAddQuantity != 0,
		c.ESDTNFTBurn != 0, c.ESDTNFTTransfer != 0, c.ESDTNFTChangeCreateOwner != 0, c.ESDTNFTMultiTransfer != 0,
		c.ESDTNFTAddURI != 0, c.ESDTNFTUpdateAttributes != 0)
	verif.Assert("builtin-section-rejected-iff-some-zero", (errC == nil) == builtOK)
	verif.Reach("accepted", verif.And(errB == nil, errC == nil))
	verif.Reach("rejected-base", errB != nil)
	verif.Reach("rejected-builtin", errC != nil)
	verif.ObserveBool("b", errB == nil)
	verif.ObserveBool("c", errC == nil)
}

// badMap renders an arbitrary schedule with at least one zero or missing entry the way a node
// would hand it to the factory: complete map with a zero somewhere, or a section / an entry
// left out.
func badMap(tag string) map[string]map[string]uint64 {
	h := anySchedule(tag)
	m := gasMapOf(h)
	switch verif.Choose(tag+".shape", 5) {
	case 0:
		verif.Assume(!allNonZero(h))
	case 1:
		delete(m, vmcommon.BaseOperationCostString)
	case 2:
		delete(m, vmcommon.BuiltInCostString)
	case 3:
		// one entry of the built-in section left out
		names := []string{"ChangeOwnerAddress", "ClaimDeveloperRewards", "SaveUserName", "SaveKeyValue", "ESDTTransfer", "ESDTBurn",
			"ESDTLocalMint", "ESDTLocalBurn", "ESDTNFTCreate", "ESDTNFTAddQuantity", "ESDTNFTBurn", "ESDTNFTTransfer",
			"ESDTNFTChangeCreateOwner", "ESDTNFTMultiTransfer", "ESDTNFTAddURI", "ESDTNFTUpdateAttributes"}
		delete(m[vmcommon.BuiltInCostString], names[verif.Choose(tag+".missing", len(names))])
	case 4:
		names := []string{"StorePerByte", "ReleasePerByte", "DataCopyPerByte", "PersistPerByte", "CompilePerByte", "AoTPreparePerByte"}
		delete(m[vmcommon.BaseOperationCostString], names[verif.Choose(tag+".missingb", len(names))])
	}
	return m
}

// C16_FactoryRejectsBadInitialSchedule: the factory cannot be constructed over a schedule with
// a zero or missing entry (so there is no "previous price" that was never validated).
func C16_FactoryRejectsBadInitialSchedule() {
	s := newScn("registry", Opt{})
	args := builtInFunctions.ArgsCreateBuiltInFunctionContainer{
		GasMap: badMap("h"), MapDNSAddresses: map[string]struct{}{}, Marshalizer: s.W.Codec, Accounts: s.W.Accounts,
		ShardCoordinator: s.W.Shards, EpochNotifier: s.W.Epochs,
	}
	f, err := builtInFunctions.NewBuiltInFunctionsFactory(args)
	verif.Assert("bad-initial-schedule-rejected", verif.And(err != nil, f == nil))
	verif.Reach("rejected", err != nil)
}

// factoryPricingCheck: the function the production factory registers under name is priced by
// its own entry of the schedule in force: the construction schedule (history 0) or the schedule
// of an accepted GasScheduleChange over arbitrary earlier prices (history 1). The scenario is
// built with Reprice, so s.Gas (= g, the schedule that must be in force at the call) and the
// expected charge are fixed before the history is chosen. Rejected changes are decided by
// C16_RejectedChangeWritesNothing (they leave every function object untouched, so the
// behaviour established here is the behaviour after them).
func factoryPricingCheck(name string, s *Scn) {
	dns := map[string]struct{}{}
	if name == vmcommon.BuiltInFunctionSetUserName {
		dns[string(scnDNS[0])] = struct{}{}
	}
	act := verif.U32("activation2")
	g := s.Gas
	hist := verif.Choose("history", 2)
	first := g
	if hist == 1 {
		first = schedule("f0")
	}
	s.Gas = first
	c, f := factoryFor(s, dns, act)
	s.Gas = g
	if hist == 1 {
		f.GasScheduleChange(gasMapOf(g))
	}
	fn, err := c.Get(name)
	verif.Assert("bound", verif.And(err == nil, fn != nil))
	s.Fn = fn
	e := verif.U32("epoch2")
	verif.Assume(e >= act)
	s.W.Epochs.Confirm(e)
	pricingCheck(s)
	verif.Reach("history-initial", hist == 0)
	verif.Reach("history-accepted", hist == 1)
}

// C16_RejectedChangeWritesNothing: a GasScheduleChange with a zero or missing entry (any
// position, any other entries) writes nothing to the factory or to any of the 23 registered
// function objects - after the construction schedule or after an earlier accepted change.
// The engine's write monitor raises "write-to-watched-object" on any store to their own state.
func C16_RejectedChangeWritesNothing() {
	s := newScn("registry", Opt{})
	s.Gas = schedule("g")
	c, f := factoryFor(s, map[string]struct{}{}, verif.U32("activation2"))
	if verif.Bool("after.accepted.change") {
		f.GasScheduleChange(gasMapOf(schedule("g1")))
	}
	bad := badMap("h")
	for _, n := range protocolNames {
		fn, _ := c.Get(n)
		verif.WatchObject(fn, n)
	}
	verif.WatchObject(f, "factory")
	f.GasScheduleChange(bad)
	verif.WatchOn(false)
	verif.Reach("rejected-change-done", true)
}
