//go:build verif

package props

import (
	vmcommon "github.com/ElrondNetwork/elrond-vm-common"
	"github.com/ElrondNetwork/elrond-vm-common/zz_verif/verif"
	"github.com/ElrondNetwork/elrond-vm-common/zz_verif/world"
)

func init() {
	reg("C09_Transfer", C09_Transfer)
	reg("C09_TransferOnMetachain", C09_TransferOnMetachain)
	reg("C09_NFTTransferSender", C09_NFTTransferSender)
	reg("C09_NFTTransferDest", C09_NFTTransferDest)
	reg("C09_MultiTransferSender", C09_MultiTransferSender)
	reg("C09_MultiTransferDest", C09_MultiTransferDest)
	reg("C09_MultiTransferDest2", C09_MultiTransferDest2)
}

// payOpt: the payability oracle, the call type, the caller identity and the attached call are
// free; gas, pause, freeze and metadata variety are pinned (not the subject).
var payOpt = Opt{GasEnough: true, NoRAE: true, Small: true, Thin: true}

// creditedCells lists the token cells of acct whose balance increased.
func credited(s *Scn, acct *world.Account) bool {
	if acct == nil {
		return false
	}
	r := false
	for _, c := range acct.Cells {
		if world.KeyClass(c.Key) != "token" {
			continue
		}
		r = verif.Or(r, s.W.Codec.BalanceOf(c.Cur).Cmp(s.W.Codec.BalanceOf(c.Init)) > 0)
	}
	return r
}

// admissibleCheck: tokens are credited to dest only when the oracle said payable, or the
// transfer carries a call / is a callback or transfer-and-execute / comes from the system
// contract.
func admissibleCheck(s *Scn, dest *world.Account, destAddr []byte, minArgs int) {
	ok := s.Err == nil
	exempt := verif.Or(
		len(s.In.Arguments) > minArgs,
		s.In.CallType == vmcommon.AsynchronousCallBack,
		s.In.CallType == vmcommon.ESDTTransferAndExecute,
		verif.BytesEq(s.In.CallerAddr, vmcommon.ESDTSCAddress))
	if ok && dest != nil && dest != s.Snd {
		verif.Assert("credited-only-if-admissible", verif.Or(!credited(s, dest), exempt, s.W.Payable.SaidPayable(destAddr)))
		verif.Reach("credited-after-oracle-said-payable", verif.And(credited(s, dest), !exempt))
		verif.Reach("credited-exempt", verif.And(credited(s, dest), exempt))
	}
	// an oracle error or a "not payable" answer on a non-exempt transfer is a rejection
	for _, q := range s.W.Payable.Queries {
		if q.Err || !q.Payable {
			verif.Assert("oracle-refusal-rejects", !ok)
			verif.Reach("rejected-by-oracle", true)
		}
	}
	verif.ObserveBool("ok", ok)
}

func C09_Transfer() {
	s := scnTransfer(payOpt)
	s.Run()
	if s.W.Shards.ComputeId(s.In.RecipientAddr) == vmcommon.MetachainShardId {
		verif.Assert("metachain-rejected", s.Err != nil)
		verif.Reach("metachain", true)
	}
	admissibleCheck(s, s.Dst, s.In.RecipientAddr, vmcommon.MinLenArgumentsESDTTransfer)
}

// C09_TransferOnMetachain: the same when the executing shard is the metachain itself, so that
// a present destination (arrival side, or sender and destination both local) is a metachain
// address: every such transfer is rejected.
func C09_TransferOnMetachain() {
	o := payOpt
	o.SelfMeta = true
	s := scnTransfer(o)
	s.Run()
	if s.W.Shards.ComputeId(s.In.RecipientAddr) == vmcommon.MetachainShardId {
		verif.Assert("metachain-rejected", s.Err != nil)
		verif.Reach("metachain", true)
		verif.Reach("metachain-destination-present", s.Dst != nil)
	}
	admissibleCheck(s, s.Dst, s.In.RecipientAddr, vmcommon.MinLenArgumentsESDTTransfer)
}

func senderSideGuards(s *Scn) {
	if len(s.DstAddr) != len(s.In.CallerAddr) {
		verif.Assert("length-mismatch-rejected", s.Err != nil)
		verif.Reach("length-mismatch", true)
		return
	}
	if verif.BytesEq(s.DstAddr, s.In.CallerAddr) {
		verif.Assert("self-rejected", s.Err != nil)
		verif.Reach("self", true)
		return
	}
	if s.Err == nil {
		verif.Assert("metachain-rejected", s.W.Shards.ComputeId(s.DstAddr) != vmcommon.MetachainShardId)
	}
}

func C09_NFTTransferSender() {
	s := scnNFTTransfer(payOpt)
	s.Run()
	senderSideGuards(s)
	var dest *world.Account
	if len(s.DstAddr) == 32 && s.W.Shards.ComputeId(s.DstAddr) == s.W.Shards.Self {
		dest = s.acctAt(s.DstAddr)
	}
	admissibleCheck(s, dest, s.DstAddr, vmcommon.MinLenArgumentsESDTNFTTransfer)
}

func C09_NFTTransferDest() {
	o := payOpt
	o.Side = 2
	s := scnNFTTransfer(o)
	s.Run()
	admissibleCheck(s, s.Dst, s.In.RecipientAddr, vmcommon.MinLenArgumentsESDTNFTTransfer)
}

func C09_MultiTransferSender() {
	o := payOpt
	o.MultiK = 1
	s := scnMultiTransfer(o)
	s.Run()
	senderSideGuards(s)
	var dest *world.Account
	if len(s.DstAddr) == 32 && s.W.Shards.ComputeId(s.DstAddr) == s.W.Shards.Self {
		dest = s.acctAt(s.DstAddr)
	}
	admissibleCheck(s, dest, s.DstAddr, 3*1+2)
}

func C09_MultiTransferDest() {
	o := payOpt
	o.Side = 2
	o.MultiK = 1
	s := scnMultiTransfer(o)
	s.Run()
	admissibleCheck(s, s.Dst, s.In.RecipientAddr, 3*1+1)
}

func C09_MultiTransferDest2() {
	o := payOpt
	o.Side = 2
	o.MultiK = 2
	o.NoCall = !verif.Thorough()
	s := scnMultiTransfer(o)
	s.Run()
	admissibleCheck(s, s.Dst, s.In.RecipientAddr, 3*2+1)
}

func init() {
	reg("C09_DefaultHandlerTransfer", C09_DefaultHandlerTransfer)
	reg("C09_DefaultHandlerNFTDest", C09_DefaultHandlerNFTDest)
	reg("C09_DefaultHandlerMultiDest", C09_DefaultHandlerMultiDest)
}

// defaultHandlerCheck: a transfer function on which no payability oracle was installed keeps the
// constructor's default handler, which refuses everything: nothing is credited to a destination
// unless the transfer is exempt from the payability question; installing a nil oracle is refused
// and leaves the default in place.
func defaultHandlerCheck(s *Scn, minArgs int) {
	if a, ok := s.Fn.(vmcommon.AcceptPayableHandler); ok {
		verif.Assert("nil-oracle-refused", a.SetPayableHandler(nil) != nil)
	} else {
		verif.Assert("accepts-payable-handler", false)
	}
	s.Run()
	ok := s.Err == nil
	exempt := verif.Or(
		len(s.In.Arguments) > minArgs,
		s.In.CallType == vmcommon.AsynchronousCallBack,
		s.In.CallType == vmcommon.ESDTTransferAndExecute,
		verif.BytesEq(s.In.CallerAddr, vmcommon.ESDTSCAddress))
	verif.Assert("oracle-never-consulted", len(s.W.Payable.Queries) == 0)
	if ok && s.Dst != nil && s.Dst != s.Snd {
		verif.Assert("default-handler-refuses-everything", verif.Or(!credited(s, s.Dst), exempt))
		verif.Reach("credited-exempt", verif.And(credited(s, s.Dst), exempt))
	}
	verif.Reach("rejected", !ok)
	verif.ObserveBool("ok", ok)
}

func C09_DefaultHandlerTransfer() {
	o := payOpt
	o.DefaultPayable = true
	defaultHandlerCheck(scnTransfer(o), vmcommon.MinLenArgumentsESDTTransfer)
}

func C09_DefaultHandlerNFTDest() {
	o := payOpt
	o.DefaultPayable, o.Side = true, 2
	defaultHandlerCheck(scnNFTTransfer(o), vmcommon.MinLenArgumentsESDTNFTTransfer)
}

func C09_DefaultHandlerMultiDest() {
	o := payOpt
	o.DefaultPayable, o.Side, o.MultiK = true, 2, 1
	defaultHandlerCheck(scnMultiTransfer(o), 3*1+1)
}
