//go:build verif

package props

import (
	"math/big"

	vmcommon "github.com/ElrondNetwork/elrond-vm-common"
	"github.com/ElrondNetwork/elrond-vm-common/zz_verif/verif"
	"github.com/ElrondNetwork/elrond-vm-common/zz_verif/world"
)

func tokenKey(tok []byte) []byte {
	k := make([]byte, 0, len(world.TokenPrefix)+len(tok))
	k = append(k, world.TokenPrefix...)
	return append(k, tok...)
}

func roleKey(tok []byte) []byte {
	k := make([]byte, 0, len(world.RolePrefix)+len(tok))
	k = append(k, world.RolePrefix...)
	return append(k, tok...)
}

func nonceKey(tok []byte) []byte {
	k := make([]byte, 0, len(world.NoncePrefix)+len(tok))
	k = append(k, world.NoncePrefix...)
	return append(k, tok...)
}

// minimalBE is big.Int(n).Bytes() for a uint64 taken from at most 8 argument bytes.
func num(b []byte) *big.Int { return new(big.Int).SetBytes(b) }

// prePost returns the balances before and after of the cell under key (0 when absent/untouched).
func prePost(w *world.World, a *world.Account, key []byte) (*big.Int, *big.Int) {
	c := a.Find(key)
	if c == nil {
		return big.NewInt(0), big.NewInt(0)
	}
	return w.Codec.BalanceOf(c.Init), w.Codec.BalanceOf(c.Cur)
}

// call runs one built-in call; panics are C11's business, so other properties assume them away.
func call(f vmcommon.BuiltinFunction, snd, dst vmcommon.UserAccountHandler, in *vmcommon.ContractCallInput) (*vmcommon.VMOutput, error) {
	var out *vmcommon.VMOutput
	var err error
	panicked := verif.Try(func() { out, err = f.ProcessBuiltinFunction(snd, dst, in) })
	verif.Assume(!panicked)
	return out, err
}

// onlyTokenWrites asserts that every storage write of the log is to acct under key.
func onlyWrites(id string, w *world.World, acct *world.Account, key []byte) {
	for _, wr := range w.Log {
		if wr.Kind == "save-account" {
			continue
		}
		verif.Assert(id, verif.And(wr.Kind == "kv", wr.Acct == acct, verif.BytesEq(wr.Key, key)))
	}
}

// noBalanceChange asserts that no token cell of any account changed its balance.
func noBalanceChange(id string, w *world.World) {
	for _, a := range w.Accounts.Known {
		if a.IsSystem {
			continue
		}
		for _, c := range a.Cells {
			if world.KeyClass(c.Key) != "token" {
				continue
			}
			verif.Assert(id, w.Codec.BalanceOf(c.Init).Cmp(w.Codec.BalanceOf(c.Cur)) == 0)
		}
	}
}
