//go:build verif

package props

import (
	vmcommon "github.com/ElrondNetwork/elrond-vm-common"
	"github.com/ElrondNetwork/elrond-vm-common/atomic"
	"github.com/ElrondNetwork/elrond-vm-common/builtInFunctions"
	"github.com/ElrondNetwork/elrond-vm-common/container"
	"github.com/ElrondNetwork/elrond-vm-common/zz_verif/verif"
)

func init() {
	reg("C19_MutexMapDiscipline", C19_MutexMapDiscipline)
	reg("C19_MutexMapLinearizable", C19_MutexMapLinearizable)
	reg("C19_ContainerLinearizable", C19_ContainerLinearizable)
	reg("C19_AtomicsDiscipline", C19_AtomicsDiscipline)
	reg("C19_CounterNoLostUpdate", C19_CounterNoLostUpdate)
	reg("C19_FlagConcurrent", C19_FlagConcurrent)
	reg("C19_RepriceWhileExecuting", C19_RepriceWhileExecuting)
	reg("C19_CounterLinearizable", C19_CounterLinearizable)
	reg("C19_FlagLinearizable", C19_FlagLinearizable)
}

// ---------------------------------------------------------------------------------------
// step 1: lock / atomic discipline on every sequential path (lockset argument for DRF)

// C19_MutexMapDiscipline: every method of MutexMap touches the map only under its lock
// (read under >= R, write under W), and leaves the lock free.
func C19_MutexMapDiscipline() {
	mm := container.NewMutexMap()
	verif.GuardFields(mm, "MutexMap", "mut", "values")
	verif.MonitorOn(true)
	if verif.Bool("prefilled") {
		mm.Set("a", 1)
	}
	k := []string{"a", "b"}[verif.Choose("key", 2)]
	switch verif.Choose("op", 8) {
	case 0:
		mm.Get(k)
	case 1:
		mm.Insert(k, 2)
	case 2:
		mm.Set(k, 3)
	case 3:
		mm.Remove(k)
	case 4:
		mm.Len()
	case 5:
		mm.Keys()
	case 6:
		mm.Values()
	default:
		mm.Insert(k, 4)
		mm.Remove(k)
	}
	// a second operation must find the lock free (no lock leaked on any path)
	mm.Set("z", 0)
	verif.Assert("usable-afterwards", mm.Len() >= 1)
	verif.Reach("done", true)
}

// C19_AtomicsDiscipline: the atomic types touch their cell only through sync/atomic.
func C19_AtomicsDiscipline() {
	var f atomic.Flag
	var c atomic.Counter
	var u32 atomic.Uint32
	var u64 atomic.Uint64
	var i64 atomic.Int64
	verif.AtomicFields(&f, "Flag", "value")
	verif.AtomicFields(&c, "Counter", "value")
	verif.AtomicFields(&u32, "Uint32", "value")
	verif.AtomicFields(&u64, "Uint64", "value")
	verif.AtomicFields(&i64, "Int64", "value")
	verif.MonitorOn(true)
	was := f.Set()
	verif.Assert("flag-set-returns-previous", !was)
	verif.Assert("flag-is-set", f.IsSet())
	verif.Assert("flag-set-again-returns-previous", f.Set())
	f.Unset()
	verif.Assert("flag-unset", !f.IsSet())
	b := verif.Bool("b")
	f.Toggle(b)
	verif.Assert("flag-toggle", f.IsSet() == b)
	x, y := int64(verif.U64("x")), int64(verif.U64("y"))
	c.Set(x)
	verif.Assert("counter-add", c.Add(y) == x+y)
	verif.Assert("counter-increment", c.Increment() == x+y+1)
	verif.Assert("counter-decrement", c.Decrement() == x+y)
	verif.Assert("counter-subtract", c.Subtract(y) == x)
	verif.Assert("counter-get", c.Get() == x)
	g := c.GetUint64()
	verif.Assert("counter-get-uint64", verif.Or(verif.And(x < 0, g == 0), verif.And(x >= 0, g == uint64(x))))
	verif.Assert("counter-reset-returns", c.Reset() == x)
	verif.Assert("counter-reset", c.Get() == 0)
	v32, v64 := verif.U32("v32"), verif.U64("v64")
	u32.Set(v32)
	u64.Set(v64)
	i64.Set(x)
	verif.Assert("uint32", u32.Get() == v32)
	verif.Assert("uint64", u64.Get() == v64)
	verif.Assert("int64", i64.Get() == x)
	var s atomic.String
	verif.Assert("string-empty", s.Get() == "")
	s.Set("abc")
	verif.Assert("string-set", s.Get() == "abc")
	verif.Reach("done", true)
}

// ---------------------------------------------------------------------------------------
// step 2: all interleavings of 2 goroutines x 1 operation at synchronisation granularity

type mapModel struct {
	hasA, hasB bool
	a, b       int
}

type opResult struct {
	v  int
	ok bool
	n  int
}

// applyModel is the sequential specification of the map.
func applyModel(m *mapModel, op int, key int, val int) opResult {
	has, cur := &m.hasA, &m.a
	if key == 1 {
		has, cur = &m.hasB, &m.b
	}
	n := 0
	if m.hasA {
		n++
	}
	if m.hasB {
		n++
	}
	switch op {
	case 0: // Get
		if *has {
			return opResult{v: *cur, ok: true}
		}
		return opResult{}
	case 1: // Insert
		if *has {
			return opResult{ok: false}
		}
		*has, *cur = true, val
		return opResult{ok: true}
	case 2: // Set
		*has, *cur = true, val
		return opResult{}
	case 3: // Remove
		*has, *cur = false, 0
		return opResult{}
	case 4: // Len
		return opResult{n: n}
	default: // Keys
		return opResult{n: n}
	}
}

func applyReal(mm *container.MutexMap, op int, key int, val int) opResult {
	k := []string{"a", "b"}[key]
	switch op {
	case 0:
		v, ok := mm.Get(k)
		if ok {
			return opResult{v: v.(int), ok: true}
		}
		return opResult{}
	case 1:
		return opResult{ok: mm.Insert(k, val)}
	case 2:
		mm.Set(k, val)
		return opResult{}
	case 3:
		mm.Remove(k)
		return opResult{}
	case 4:
		return opResult{n: mm.Len()}
	default:
		return opResult{n: len(mm.Keys())}
	}
}

func snapshotReal(mm *container.MutexMap) mapModel {
	var m mapModel
	if v, ok := mm.Get("a"); ok {
		m.hasA, m.a = true, v.(int)
	}
	if v, ok := mm.Get("b"); ok {
		m.hasB, m.b = true, v.(int)
	}
	return m
}

// C19_MutexMapLinearizable: the results of two concurrent operations and the final map equal
// those of one of the two sequential orders, for every interleaving.
func C19_MutexMapLinearizable() {
	mm := container.NewMutexMap()
	verif.GuardFields(mm, "MutexMap", "mut", "values")
	var init mapModel
	if verif.Bool("a.present") {
		init.hasA, init.a = true, 10
		mm.Set("a", 10)
	}
	if verif.Bool("b.present") {
		init.hasB, init.b = true, 20
		mm.Set("b", 20)
	}
	verif.MonitorOn(true)
	opA, keyA := verif.Choose("opA", 6), verif.Choose("keyA", 2)
	opB, keyB := verif.Choose("opB", 6), verif.Choose("keyB", 2)
	var rA, rB opResult
	verif.Spawn(func() { rA = applyReal(mm, opA, keyA, 1) })
	verif.Spawn(func() { rB = applyReal(mm, opB, keyB, 2) })
	verif.Join()
	final := snapshotReal(mm)
	// the two sequential orders
	m1 := init
	a1 := applyModel(&m1, opA, keyA, 1)
	b1 := applyModel(&m1, opB, keyB, 2)
	m2 := init
	b2 := applyModel(&m2, opB, keyB, 2)
	a2 := applyModel(&m2, opA, keyA, 1)
	ab := rA == a1 && rB == b1 && final == m1
	ba := rA == a2 && rB == b2 && final == m2
	verif.Assert("linearizable", ab || ba)
	verif.Reach("order-matters", m1 != m2 || a1 != a2 || b1 != b2)
}

// C19_ContainerLinearizable: the same through the function container's API.
func C19_ContainerLinearizable() {
	c := builtInFunctions.NewBuiltInFunctionContainer()
	f1 := builtInFunctions.NewChangeOwnerAddressFunc(1)
	f2 := builtInFunctions.NewClaimDeveloperRewardsFunc(2)
	if verif.Bool("present") {
		_ = c.Add("k", f1)
	}
	pre := c.Len()
	var errA, errB error
	var gotB vmcommon.BuiltinFunction
	var nB int
	opA, opB := verif.Choose("opA", 3), verif.Choose("opB", 3)
	verif.Spawn(func() {
		switch opA {
		case 0:
			errA = c.Add("k", f2)
		case 1:
			errA = c.Replace("k", f2)
		default:
			c.Remove("k")
		}
	})
	verif.Spawn(func() {
		switch opB {
		case 0:
			gotB, errB = c.Get("k")
		case 1:
			nB = c.Len()
		default:
			nB = len(c.Keys())
		}
	})
	verif.Join()
	post := c.Len()
	// sequential outcomes
	afterA := pre
	addOK := pre == 0
	switch opA {
	case 0:
		if pre == 0 {
			afterA = 1
		}
		verif.Assert("add-result", (errA == nil) == addOK)
	case 1:
		afterA = 1
		verif.Assert("replace-result", errA == nil)
	default:
		afterA = 0
	}
	verif.Assert("final-length", post == afterA)
	switch opB {
	case 0:
		// B ran before A (sees pre) or after A (sees afterA)
		sawPre := (errB == nil) == (pre == 1)
		sawPost := (errB == nil) == (afterA == 1)
		verif.Assert("get-sees-a-sequential-state", sawPre || sawPost)
		if errB == nil {
			verif.Assert("get-returns-a-stored-function", gotB == vmcommon.BuiltinFunction(f1) || gotB == vmcommon.BuiltinFunction(f2))
		}
	default:
		verif.Assert("len-sees-a-sequential-state", nB == pre || nB == afterA)
	}
	verif.Reach("done", true)
}

// C19_CounterNoLostUpdate: two concurrent updates of the counter are both reflected.
func C19_CounterNoLostUpdate() {
	var c atomic.Counter
	verif.AtomicFields(&c, "Counter", "value")
	verif.MonitorOn(true)
	x, y := int64(verif.U64("x")), int64(verif.U64("y"))
	var rA, rB int64
	verif.Spawn(func() { rA = c.Add(x) })
	verif.Spawn(func() { rB = c.Add(y) })
	verif.Join()
	verif.Assert("no-lost-update", c.Get() == x+y)
	verif.Assert("returns-a-sequential-value", verif.Or(verif.And(rA == x, rB == x+y), verif.And(rB == y, rA == x+y)))
	verif.Reach("done", true)
}

// C19_FlagConcurrent: concurrent Set / IsSet on the flag behave as some sequential order.
func C19_FlagConcurrent() {
	var f atomic.Flag
	verif.AtomicFields(&f, "Flag", "value")
	verif.MonitorOn(true)
	var wasA, wasB bool
	verif.Spawn(func() { wasA = f.Set() })
	verif.Spawn(func() { wasB = f.Set() })
	verif.Join()
	verif.Assert("set", f.IsSet())
	verif.Assert("exactly-one-first-setter", wasA != wasB)
	verif.Reach("done", true)
}

// C19_RepriceWhileExecuting: one ProcessBuiltinFunction concurrent with one SetNewGasConfig is
// charged wholly by the old or wholly by the new schedule, never a mixture; the price fields are
// read under >= R and written under W in one write section.
func C19_RepriceWhileExecuting() {
	var s *Scn
	o := Opt{Small: true, Thin: true, NoRAE: true, Direct: true, FixedCaller: true}
	var fields []string
	switch verif.Choose("which", 3) {
	case 0:
		s, fields = scnNFTCreate(o), []string{"funcGasCost", "gasConfig"}
	case 1:
		s, fields = scnNFTAddURI(o), []string{"funcGasCost", "gasConfig"}
	default:
		s, fields = scnLocalMint(o), []string{"funcGasCost"}
	}
	verif.GuardFields(s.Fn, "prices", "mutExecution", fields...)
	verif.MonitorOn(true)
	g1 := s.Gas
	g2 := schedule("g2")
	verif.Spawn(func() { s.Run() })
	verif.Spawn(func() { s.Fn.SetNewGasConfig(g2) })
	verif.Join()
	verif.MonitorOn(false)
	if s.Err != nil {
		verif.Reach("rejected", true)
		return
	}
	s.Gas = g1
	c1, ok1 := chargeNow(s)
	s.Gas = g2
	// the scenario's precomputed charge belongs to g1; recompute it for g2 by its formula
	c2, ok2 := chargeUnder(s, g2)
	if !ok1 || !ok2 {
		return
	}
	consumed := s.In.GasProvided - s.Out.GasRemaining
	verif.Assert("charged-by-one-schedule", verif.Or(consumed == c1, consumed == c2))
	verif.Reach("charged-by-old", consumed == c1)
	verif.Reach("charged-by-new", consumed == c2)
}

// chargeUnder is the function's documented charge under schedule g for the executed call.
func chargeUnder(s *Scn, g *vmcommon.GasCost) (uint64, bool) {
	args := s.In.Arguments
	switch s.Name {
	case "ESDTNFTCreate":
		return g.BuiltInCost.ESDTNFTCreate + argsLen(args)*g.BaseOperationCost.StorePerByte, true
	case "ESDTNFTAddURI":
		return g.BuiltInCost.ESDTNFTAddURI + argsLen(args[2:])*g.BaseOperationCost.StorePerByte, true
	case "ESDTLocalMint":
		return g.BuiltInCost.ESDTLocalMint, true
	case "SaveKeyValue":
		old := s.Gas
		s.Gas = g
		c, ok := chargeNow(s)
		s.Gas = old
		return c, ok
	}
	return 0, false
}

// disciplineCheck (step 1, every priced function): with the price fields registered as guarded by
// mutExecution, one SetNewGasConfig and one ProcessBuiltinFunction are executed on every path;
// the monitor flags a price read without the lock, a price write without the write lock and
// price fields written in more than one write section.
func disciplineCheck(s *Scn, fields ...string) {
	verif.GuardFields(s.Fn, "prices", "mutExecution", fields...)
	verif.MonitorOn(true)
	s.Fn.SetNewGasConfig(schedule("g2"))
	// an execution holds only the read lock: it writes nothing that other executions share (own
	// state of the function object, package-level prefixes and constants, spare capacity included)
	verif.WatchObject(s.Fn, "function-object")
	s.Run()
	verif.WatchOn(false)
	verif.MonitorOn(false)
	verif.Reach("ran", true)
}

// counterOp runs operation op of the real Counter (argument v) and returns what it returned.
func counterOp(c *atomic.Counter, op int, v int64) int64 {
	switch op {
	case 0:
		c.Set(v)
		return 0
	case 1:
		return c.Increment()
	case 2:
		return c.Add(v)
	case 3:
		return c.Decrement()
	case 4:
		return c.Subtract(v)
	case 5:
		return c.Get()
	case 6:
		return c.Reset()
	}
	return int64(c.GetUint64())
}

// counterSpec is the sequential specification: new state and returned value.
func counterSpec(st int64, op int, v int64) (int64, int64) {
	switch op {
	case 0:
		return v, 0
	case 1:
		return st + 1, st + 1
	case 2:
		return st + v, st + v
	case 3:
		return st - 1, st - 1
	case 4:
		return st - v, st - v
	case 5:
		return st, st
	case 6:
		return 0, st
	}
	if st < 0 {
		return st, 0
	}
	return st, st
}

// C19_CounterLinearizable: any two operations of the counter (Set, Increment, Add, Decrement,
// Subtract, Get, Reset, GetUint64; arbitrary arguments and initial value) run concurrently return
// what one of the two sequential orders returns and leave that order's final value - in
// particular no update falls between the halves of another operation (Reset returns and clears
// in one step).
func C19_CounterLinearizable() {
	var c atomic.Counter
	verif.AtomicFields(&c, "Counter", "value")
	verif.MonitorOn(true)
	v0 := int64(verif.U64("v0"))
	c.Set(v0)
	opA, opB := verif.Choose("opA", 8), verif.Choose("opB", 8)
	x, y := int64(verif.U64("x")), int64(verif.U64("y"))
	var rA, rB int64
	verif.Spawn(func() { rA = counterOp(&c, opA, x) })
	verif.Spawn(func() { rB = counterOp(&c, opB, y) })
	verif.Join()
	final := c.Get()
	// order A;B
	s1, a1 := counterSpec(v0, opA, x)
	s12, b1 := counterSpec(s1, opB, y)
	// order B;A
	s2, b2 := counterSpec(v0, opB, y)
	s21, a2 := counterSpec(s2, opA, x)
	verif.Assert("linearizable", verif.Or(verif.And(rA == a1, rB == b1, final == s12), verif.And(rA == a2, rB == b2, final == s21)))
	verif.Reach("done", true)
	verif.Reach("reset-with-update", opA == 6 && opB == 1)
}

// C19_FlagLinearizable: the same for the flag (Set, Unset, IsSet, Toggle(true), Toggle(false)).
func C19_FlagLinearizable() {
	var f atomic.Flag
	verif.AtomicFields(&f, "Flag", "value")
	verif.MonitorOn(true)
	init := verif.Bool("initially.set")
	f.Toggle(init)
	flagOp := func(op int) bool {
		switch op {
		case 0:
			return f.Set()
		case 1:
			f.Unset()
		case 2:
			return f.IsSet()
		case 3:
			f.Toggle(true)
		case 4:
			f.Toggle(false)
		}
		return false
	}
	spec := func(st bool, op int) (bool, bool) {
		switch op {
		case 0:
			return true, st
		case 1, 4:
			return false, false
		case 2:
			return st, st
		}
		return true, false
	}
	opA, opB := verif.Choose("opA", 5), verif.Choose("opB", 5)
	var rA, rB bool
	verif.Spawn(func() { rA = flagOp(opA) })
	verif.Spawn(func() { rB = flagOp(opB) })
	verif.Join()
	final := f.IsSet()
	s1, a1 := spec(init, opA)
	s12, b1 := spec(s1, opB)
	s2, b2 := spec(init, opB)
	s21, a2 := spec(s2, opA)
	verif.Assert("linearizable", verif.Or(verif.And(rA == a1, rB == b1, final == s12), verif.And(rA == a2, rB == b2, final == s21)))
	verif.Reach("done", true)
}

func init() {
	reg("C19_IntegersLinearizable", C19_IntegersLinearizable)
}

// C19_IntegersLinearizable: Set || Set, Set || Get and Get || Get on the atomic Uint32, Uint64,
// Int64 and String: what the reads return and the final value are those of one of the two
// sequential orders (no update is lost, no torn or stale-beyond-order value is read).
func C19_IntegersLinearizable() {
	kind := verif.Choose("type", 4)
	v0, x, y := verif.U64("v0"), verif.U64("x"), verif.U64("y")
	var u32 atomic.Uint32
	var u64 atomic.Uint64
	var i64 atomic.Int64
	var str atomic.String
	names := []string{"p", "q", "r"}
	verif.AtomicFields(&u32, "Uint32", "value")
	verif.AtomicFields(&u64, "Uint64", "value")
	verif.AtomicFields(&i64, "Int64", "value")
	verif.MonitorOn(true)
	set := func(v uint64) {
		switch kind {
		case 0:
			u32.Set(uint32(v))
		case 1:
			u64.Set(v)
		case 2:
			i64.Set(int64(v))
		default:
			str.Set(names[v%3])
		}
	}
	get := func() uint64 {
		switch kind {
		case 0:
			return uint64(u32.Get())
		case 1:
			return u64.Get()
		case 2:
			return uint64(i64.Get())
		}
		s := str.Get()
		for i, n := range names {
			if s == n {
				return uint64(i)
			}
		}
		return 99
	}
	norm := func(v uint64) uint64 {
		switch kind {
		case 0:
			return uint64(uint32(v))
		case 3:
			return v % 3
		}
		return v
	}
	if kind == 3 {
		verif.Assert("string-initially-empty", str.Get() == "")
	}
	set(v0)
	opA, opB := verif.Choose("opA", 2), verif.Choose("opB", 2) // 0 = Set, 1 = Get
	var rA, rB uint64
	verif.Spawn(func() {
		if opA == 0 {
			set(x)
		} else {
			rA = get()
		}
	})
	verif.Spawn(func() {
		if opB == 0 {
			set(y)
		} else {
			rB = get()
		}
	})
	verif.Join()
	final := get()
	spec := func(st uint64, op int, v uint64) (uint64, uint64) {
		if op == 0 {
			return norm(v), 0
		}
		return st, st
	}
	s1, a1 := spec(norm(v0), opA, x)
	s12, b1 := spec(s1, opB, y)
	s2, b2 := spec(norm(v0), opB, y)
	s21, a2 := spec(s2, opA, x)
	verif.Assert("linearizable", verif.Or(verif.And(rA == a1, rB == b1, final == s12), verif.And(rA == a2, rB == b2, final == s21)))
	verif.Reach("done", true)
	verif.Reach("set-set", opA == 0 && opB == 0)
	verif.Reach("string", kind == 3)
}
