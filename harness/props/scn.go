//go:build verif

package props

import (
	"math/big"

	vmcommon "github.com/ElrondNetwork/elrond-vm-common"
	"github.com/ElrondNetwork/elrond-vm-common/builtInFunctions"
	"github.com/ElrondNetwork/elrond-vm-common/data/esdt"
	"github.com/ElrondNetwork/elrond-vm-common/zz_verif/verif"
	"github.com/ElrondNetwork/elrond-vm-common/zz_verif/world"
)

// Opt selects the variant of a scenario.
type Opt struct {
	Faults         bool // C17: every stub call may fail
	CheckInv       bool // C15: assert Inv on every write
	RealRoles      bool // C03/C07/C15: real role handler over symbolic role cells (else a symbolic allow/deny stub)
	Side           int  // transfers: 0 = same call both sides possible (sender side), 2 = destination side
	Reprice        bool // C16: arbitrary prior prices, then SetNewGasConfig(g) before the call
	NoFrozen       bool
	FixedCaller    bool // the caller has the identity the function expects (skip authority variations)
	Small          bool // smallest argument shapes only (for properties whose subject is not the arguments)
	Medium         bool // thorough tier: keep the quick tier's argument length sets (the state space is what is widened)
	Thin           bool // smallest pre-state space (world.Config.Thin)
	GasEnough      bool // gas is not the subject: GasProvided >= 2^48
	NoRAE          bool // ReturnCallAfterError pinned to false
	Direct         bool // CallType pinned to DirectCall
	NoCall         bool // no attached contract call
	NoPause        bool // no pause flags generated
	PauseBinary    bool // generated pause flags are absent or "paused" (no "present, not paused" variant)
	Split1         bool // single-byte nonce split in generated metadata (quick tier)
	NoURIs         bool // generated metadata carries no URIs
	FullAmounts    bool // numeric amounts keep their adversarial length set even in a Small scenario
	VaryHash       bool // generated and carried metadata hashes have length 0 or 1 (else 1)
	Call2          bool // attached calls may carry two call arguments
	SysDest        bool // allow the system account address as transfer destination (finding F10's class)
	Presence       int  // account presence: 0 free, 1 (S,D), 2 (S,nil), 3 (nil,D)
	MultiK         int  // multi-transfer: number of tokens (0: 1..2)
	CrossOnly      bool // NFT/multi sender side: the destination is pinned to another shard
	SameItems      bool // multi-transfer sender side: every item is the same concrete fungible item (token "AB", amount 1): what varies is the count
	SameOnly       bool // NFT/multi sender side: the destination is pinned to the executing shard
	SelfMeta       bool // the executing shard is the metachain (accounts handed to the call are metachain accounts)
	DefaultPayable bool // C09: keep the payability handler the constructor installs (no SetPayableHandler)
	Wild           bool // C11: arbitrary argument counts and adversarial lengths per argument role
}

// Scn is one built-in call from an arbitrary well-formed world.
type Scn struct {
	Name    string
	O       Opt
	W       *world.World
	Fn      vmcommon.BuiltinFunction
	Snd     *world.Account // caller's account when it lives on the executing shard
	Dst     *world.Account // recipient's account when it lives on the executing shard
	In      *vmcommon.ContractCallInput
	Out     *vmcommon.VMOutput
	Err     error
	Roles   *world.RolesStub
	Gas     *vmcommon.GasCost // the schedule in force
	Cost    uint64            // this function's own entry of Gas
	Priced  bool
	Tok     []byte
	NonceB  []byte
	Amt     []byte
	DstAddr []byte
	// expected charge of a successful sender-side execution (C16); valid when ChargeOK
	Charge   uint64
	ChargeOK bool
}

func (s *Scn) psnd() vmcommon.UserAccountHandler {
	if s.Snd == nil {
		return nil
	}
	return s.Snd
}

func (s *Scn) pdst() vmcommon.UserAccountHandler {
	if s.Dst == nil {
		return nil
	}
	return s.Dst
}

// Run executes the call (panics are C11's business and are assumed away here).
func (s *Scn) Run() {
	s.Out, s.Err = call(s.Fn, s.psnd(), s.pdst(), s.In)
}

// RunCatch executes the call and reports a panic instead of assuming it away.
func (s *Scn) RunCatch() bool {
	return verif.Try(func() { s.Out, s.Err = s.Fn.ProcessBuiltinFunction(s.psnd(), s.pdst(), s.In) })
}

// cost32 is a non-zero 32-bit cost, built as a zero-extended 32-bit variable (not a 64-bit
// variable with a range assumption) so that the high bits are structurally zero for the
// bit-blaster: products with byte counts then decide in milliseconds.
func cost32(tag string) uint64 {
	c := verif.U32(tag)
	verif.Assume(c != 0)
	return uint64(c)
}

// schedule is an arbitrary accepted gas schedule: every entry non-zero and below 2^32.
func schedule(tag string) *vmcommon.GasCost {
	g := &vmcommon.GasCost{}
	g.BaseOperationCost = vmcommon.BaseOperationCost{
		StorePerByte: cost32(tag + ".StorePerByte"), ReleasePerByte: cost32(tag + ".ReleasePerByte"),
		DataCopyPerByte: cost32(tag + ".DataCopyPerByte"), PersistPerByte: cost32(tag + ".PersistPerByte"),
		CompilePerByte: cost32(tag + ".CompilePerByte"), AoTPreparePerByte: cost32(tag + ".AoTPreparePerByte"),
	}
	g.BuiltInCost = vmcommon.BuiltInCost{
		ChangeOwnerAddress: cost32(tag + ".ChangeOwnerAddress"), ClaimDeveloperRewards: cost32(tag + ".ClaimDeveloperRewards"),
		SaveUserName: cost32(tag + ".SaveUserName"), SaveKeyValue: cost32(tag + ".SaveKeyValue"),
		ESDTTransfer: cost32(tag + ".ESDTTransfer"), ESDTBurn: cost32(tag + ".ESDTBurn"),
		ESDTLocalMint: cost32(tag + ".ESDTLocalMint"), ESDTLocalBurn: cost32(tag + ".ESDTLocalBurn"),
		ESDTNFTCreate: cost32(tag + ".ESDTNFTCreate"), ESDTNFTAddQuantity: cost32(tag + ".ESDTNFTAddQuantity"),
		ESDTNFTBurn: cost32(tag + ".ESDTNFTBurn"), ESDTNFTTransfer: cost32(tag + ".ESDTNFTTransfer"),
		ESDTNFTChangeCreateOwner: cost32(tag + ".ESDTNFTChangeCreateOwner"), ESDTNFTMultiTransfer: cost32(tag + ".ESDTNFTMultiTransfer"),
		ESDTNFTAddURI: cost32(tag + ".ESDTNFTAddURI"), ESDTNFTUpdateAttributes: cost32(tag + ".ESDTNFTUpdateAttributes"),
	}
	return g
}

func newScn(name string, o Opt) *Scn {
	cfg := world.Config{Faults: o.Faults, CheckInv: o.CheckInv, NoFrozenGen: o.NoFrozen, MetaFieldLen: 1, MaxURIs: 1, Thin: o.Thin, NoPauseGen: o.NoPause, PauseBinary: o.PauseBinary, Split1: o.Split1 && (!verif.Thorough() || o.Medium),
		GasEnough: o.GasEnough, NoReturnAfterError: o.NoRAE, DirectCallOnly: o.Direct, VaryHash: o.VaryHash}
	if o.RealRoles {
		cfg.RolesMax = 2
		cfg.RoleLens = []int{15, 17, 22, 27}
	}
	medium = o.Medium
	small = o.Small || o.Wild // wild scenarios discard the typical arguments: build them in their smallest shape
	noCall = o.NoCall || o.Wild
	call2 = o.Call2
	varyHash = o.VaryHash
	fullAmounts = o.FullAmounts
	if o.NoURIs {
		cfg.MaxURIs = 0
	}
	s := &Scn{Name: name, O: o, W: world.New(cfg)}
	if o.SelfMeta {
		s.W.Shards.Self = vmcommon.MetachainShardId
	}
	s.Roles = &world.RolesStub{W: s.W}
	return s
}

func (s *Scn) rolesHandler() vmcommon.ESDTRoleHandler {
	if s.O.RealRoles {
		return s.W.Roles
	}
	return s.Roles
}

// prices returns the schedule the function is constructed with. With Reprice the object is
// built with arbitrary other prices and then repriced through SetNewGasConfig (C16).
func (s *Scn) prices() *vmcommon.GasCost {
	s.Gas = schedule("g")
	if s.O.Reprice {
		return schedule("g0")
	}
	return s.Gas
}

func (s *Scn) finishPricing() {
	if s.O.Reprice {
		s.Fn.SetNewGasConfig(s.Gas)
	}
}

func addr32(tag string) []byte { return verif.Bytes(tag, 32) }

// notSystem excludes the system account address 0xff…ff as a transfer destination: tokens
// sent there are stored under the key of the pause flag (finding F10), which is decided by
// its own harness (C15_SystemAccountDestination).
func (s *Scn) notSystem(dest []byte) {
	if !s.O.SysDest && len(dest) == 32 {
		verif.Assume(!verif.BytesEq(dest, vmcommon.SystemAccountAddress))
	}
}

func (s *Scn) userSender() {
	s.Snd = s.W.NewAccount("snd", addr32("snd.addr"))
}

// small switches every argument picker to its smallest shape set (used by properties whose
// subject is not the argument bytes: C06, C13, C16, C17).
var small bool

// wideNonce: the nonce argument is 8 or 9 bytes long (values at and beyond the machine word)
var wideNonce bool

func nonceArg(tag string) []byte {
	if wideNonce {
		return verif.BytesOf(tag, 9, 8)
	}
	if small {
		return verif.BytesOf(tag, 1)
	}
	if wide() {
		return verif.BytesOf(tag, 0, 1, 2, 8, 9)
	}
	return verif.BytesOf(tag, 0, 1, 2)
}

// wide reports whether argument generators use their widest (thorough) length sets.
var medium bool

func wide() bool { return verif.Thorough() && !medium }

func smallBytes(tag string) []byte {
	if small {
		return verif.Bytes(tag, 1)
	}
	if wide() {
		return verif.BytesLen(tag, 0, 2)
	}
	return verif.BytesOf(tag, 0, 1)
}

// wildArgs builds an adversarial argument list for a role spec (one letter per position:
// t token id, n number, a address, b other bytes). Two sweeps (DESIGN.md C11):
//
//	count sweep   - any count in 0..len(spec)+1, one-byte items (32-byte addresses);
//	content sweep - the full count, every length drawn from the role's adversarial set
//	                (numbers 0/1/8 bytes - so 2^64-1 and all residues of 3n+c are in range -
//	                plus 2/9 bytes in the thorough tier; token ids 0/2; addresses 32/31).
func wildArgs(spec string) [][]byte {
	if i := indexByte(spec, '|'); i >= 0 {
		if verif.Choose("wild.mode", 2) == 0 {
			return wildCount(spec[:i])
		}
		return wildContent(spec[i+1:])
	}
	if verif.Choose("wild.mode", 2) == 0 {
		return wildCount(spec)
	}
	return wildContent(spec)
}

func indexByte(s string, c byte) int {
	for i := 0; i < len(s); i++ {
		if s[i] == c {
			return i
		}
	}
	return -1
}

func wildCount(spec string) [][]byte {
	n := verif.Choose("nargs", len(spec)+2)
	args := make([][]byte, 0, n)
	for i := 0; i < n; i++ {
		if i < len(spec) && spec[i] == 'a' {
			args = append(args, verif.Bytes("w.addr", 32))
		} else {
			args = append(args, verif.Bytes("w.b", 1))
		}
	}
	return args
}

func wildContent(spec string) [][]byte {
	// thorough length sets; long argument lists (the multi-transfer's 8 positions) get a reduced
	// thorough set so that the product of the per-position choices stays explorable
	full := wide() && len(spec) <= 6
	semi := wide() && len(spec) > 6
	args := make([][]byte, 0, len(spec))
	for i := 0; i < len(spec); i++ {
		var a []byte
		switch spec[i] {
		case 't':
			switch {
			case full:
				a = verif.BytesLen("w.tok", 0, 3)
			case semi:
				a = verif.BytesOf("w.tok", 2, 0)
			default:
				a = verif.Bytes("w.tok", 2)
			}
		case 'n':
			switch {
			case full:
				a = verif.BytesOf("w.num", 1, 0, 8, 2, 9)
			case semi:
				a = verif.BytesOf("w.num", 1, 0, 8, 9)
			default:
				a = verif.BytesOf("w.num", 1, 0, 8, 9)
			}
		case 'a':
			switch {
			case full:
				a = verif.BytesOf("w.addr", 32, 31, 33)
			case semi:
				a = verif.BytesOf("w.addr", 32, 31)
			default:
				a = verif.Bytes("w.addr", 32)
			}
		default:
			if wide() {
				a = verif.BytesOf("w.b", 1, 0)
			} else {
				a = verif.Bytes("w.b", 1)
			}
		}
		args = append(args, a)
	}
	return args
}

// wild replaces the typical arguments by an adversarial list when the scenario asks for it.
func (s *Scn) wild(spec string, typical [][]byte) [][]byte {
	if !s.O.Wild {
		return typical
	}
	args := wildArgs(spec)
	verif.AllocBound(len(args) + 4)
	for i := 0; i < len(args) && i < len(spec); i++ {
		switch {
		case spec[i] == 't' && s.Tok == nil:
			s.Tok = args[i]
		case spec[i] == 'a' && s.DstAddr == nil:
			s.DstAddr = args[i]
		}
	}
	return args
}

// nftKey is the storage key the code derives for (token, nonce argument).
func nftKey(tok []byte, nonceB []byte) []byte {
	n := new(big.Int).SetBytes(nonceB).Uint64()
	return append(tokenKey(tok), new(big.Int).SetUint64(n).Bytes()...)
}

func nonceOf(nonceB []byte) uint64 { return new(big.Int).SetBytes(nonceB).Uint64() }

// ---------------------------------------------------------------------------------------
// local (caller == recipient) role-gated functions

func (s *Scn) selfCall(args [][]byte) {
	s.userSender()
	rcv := s.Snd.Addr
	if !s.O.FixedCaller && verif.Bool("rcv.differs") {
		rcv = addr32("rcv.addr")
	}
	s.In = s.W.Input(s.Snd.Addr, rcv, args)
}

func scnLocalBurn(o Opt) *Scn {
	s := newScn("ESDTLocalBurn", o)
	s.Tok, s.Amt = tokenID("tok"), amount("amt")
	s.selfCall(s.wild("tn", [][]byte{s.Tok, s.Amt}))
	g := s.prices()
	s.Fn, _ = builtInFunctions.NewESDTLocalBurnFunc(g.BuiltInCost.ESDTLocalBurn, s.W.Codec, s.W.Pause, s.rolesHandler())
	s.finishPricing()
	s.Cost, s.Priced = s.Gas.BuiltInCost.ESDTLocalBurn, true
	s.Charge, s.ChargeOK = s.Cost, true
	return s
}

func scnLocalMint(o Opt) *Scn {
	s := newScn("ESDTLocalMint", o)
	s.Tok, s.Amt = tokenID("tok"), amount("amt")
	s.selfCall(s.wild("tn", [][]byte{s.Tok, s.Amt}))
	g := s.prices()
	s.Fn, _ = builtInFunctions.NewESDTLocalMintFunc(g.BuiltInCost.ESDTLocalMint, s.W.Codec, s.W.Pause, s.rolesHandler())
	s.finishPricing()
	s.Cost, s.Priced = s.Gas.BuiltInCost.ESDTLocalMint, true
	s.Charge, s.ChargeOK = s.Cost, true
	return s
}

func scnNFTAddQuantity(o Opt) *Scn {
	s := newScn("ESDTNFTAddQuantity", o)
	s.Tok, s.NonceB, s.Amt = tokenID("tok"), nonceArg("nonce"), amount("amt")
	s.selfCall(s.wild("tnn", [][]byte{s.Tok, s.NonceB, s.Amt}))
	g := s.prices()
	s.Fn, _ = builtInFunctions.NewESDTNFTAddQuantityFunc(g.BuiltInCost.ESDTNFTAddQuantity, s.W.Codec, s.W.Pause, s.rolesHandler())
	s.finishPricing()
	s.Cost, s.Priced = s.Gas.BuiltInCost.ESDTNFTAddQuantity, true
	s.Charge, s.ChargeOK = s.Cost, true
	return s
}

func scnNFTBurn(o Opt) *Scn {
	s := newScn("ESDTNFTBurn", o)
	s.Tok, s.NonceB, s.Amt = tokenID("tok"), nonceArg("nonce"), amount("amt")
	s.selfCall(s.wild("tnn", [][]byte{s.Tok, s.NonceB, s.Amt}))
	g := s.prices()
	s.Fn, _ = builtInFunctions.NewESDTNFTBurnFunc(g.BuiltInCost.ESDTNFTBurn, s.W.Codec, s.W.Pause, s.rolesHandler())
	s.finishPricing()
	s.Cost, s.Priced = s.Gas.BuiltInCost.ESDTNFTBurn, true
	s.Charge, s.ChargeOK = s.Cost, true
	return s
}

func argsLen(args [][]byte) uint64 {
	n := uint64(0)
	for _, a := range args {
		n += uint64(len(a))
	}
	return n
}

func scnNFTCreate(o Opt) *Scn {
	s := newScn("ESDTNFTCreate", o)
	s.Tok, s.Amt = tokenID("tok"), amount("qty")
	var royalties []byte
	if small {
		royalties = verif.Bytes("royalties", 2)
	} else if wide() {
		royalties = verif.BytesOf("royalties", 0, 2, 4, 9)
	} else {
		royalties = verif.BytesOf("royalties", 2, 9)
	}
	args := [][]byte{s.Tok, s.Amt, smallBytes("name"), royalties, smallBytes("hash"), smallBytes("attr"), smallBytes("uri0")}
	if !small && verif.Bool("two.uris") {
		args = append(args, smallBytes("uri1"))
	}
	args = s.wild("tnbnbbbb|tnbnbbb", args)
	s.selfCall(args)
	g := s.prices()
	s.Fn, _ = builtInFunctions.NewESDTNFTCreateFunc(g.BuiltInCost.ESDTNFTCreate, g.BaseOperationCost, s.W.Codec, s.W.Pause, s.rolesHandler())
	s.finishPricing()
	s.Cost, s.Priced = s.Gas.BuiltInCost.ESDTNFTCreate, true
	s.Charge, s.ChargeOK = s.Cost+argsLen(args)*s.Gas.BaseOperationCost.StorePerByte, true
	return s
}

func scnNFTAddURI(o Opt) *Scn {
	s := newScn("ESDTNFTAddURI", o)
	s.Tok, s.NonceB = tokenID("tok"), nonceArg("nonce")
	args := [][]byte{s.Tok, s.NonceB, smallBytes("uri0")}
	if !small && verif.Bool("two.uris") {
		args = append(args, smallBytes("uri1"))
	}
	args = s.wild("tnb", args)
	s.selfCall(args)
	g := s.prices()
	s.Fn, _ = builtInFunctions.NewESDTNFTAddUriFunc(g.BuiltInCost.ESDTNFTAddURI, g.BaseOperationCost, s.W.Codec, s.W.Pause, s.rolesHandler(), verif.U32("activation"), s.W.Epochs)
	s.finishPricing()
	s.Cost, s.Priced = s.Gas.BuiltInCost.ESDTNFTAddURI, true
	if len(args) >= 2 {
		s.Charge, s.ChargeOK = s.Cost+argsLen(args[2:])*s.Gas.BaseOperationCost.StorePerByte, true
	}
	return s
}

func scnNFTUpdateAttributes(o Opt) *Scn {
	s := newScn("ESDTNFTUpdateAttributes", o)
	s.Tok, s.NonceB = tokenID("tok"), nonceArg("nonce")
	args := s.wild("tnb", [][]byte{s.Tok, s.NonceB, smallBytes("attr")})
	s.selfCall(args)
	g := s.prices()
	s.Fn, _ = builtInFunctions.NewESDTNFTUpdateAttributesFunc(g.BuiltInCost.ESDTNFTUpdateAttributes, g.BaseOperationCost, s.W.Codec, s.W.Pause, s.rolesHandler(), verif.U32("activation"), s.W.Epochs)
	s.finishPricing()
	s.Cost, s.Priced = s.Gas.BuiltInCost.ESDTNFTUpdateAttributes, true
	if len(args) >= 3 {
		s.Charge, s.ChargeOK = s.Cost+uint64(len(args[2]))*s.Gas.BaseOperationCost.StorePerByte, true
	}
	return s
}

// ---------------------------------------------------------------------------------------
// ESDTBurn (to the system contract)

func scnESDTBurn(o Opt) *Scn {
	s := newScn("ESDTBurn", o)
	s.Tok, s.Amt = tokenID("tok"), amount("amt")
	s.userSender()
	rcv := vmcommon.ESDTSCAddress
	if !o.FixedCaller && verif.Bool("rcv.differs") {
		rcv = addr32("rcv.addr")
	}
	s.In = s.W.Input(s.Snd.Addr, rcv, s.wild("tn", [][]byte{s.Tok, s.Amt}))
	g := s.prices()
	s.Fn, _ = builtInFunctions.NewESDTBurnFunc(g.BuiltInCost.ESDTBurn, s.W.Codec, s.W.Pause)
	s.finishPricing()
	s.Cost, s.Priced = s.Gas.BuiltInCost.ESDTBurn, true
	s.Charge, s.ChargeOK = s.Cost, true
	return s
}

// ---------------------------------------------------------------------------------------
// system-contract operations on a destination account

func (s *Scn) systemCaller() []byte {
	if s.O.FixedCaller || verif.Bool("caller.isESDTSC") {
		return vmcommon.ESDTSCAddress
	}
	return addr32("caller.addr")
}

func scnFreezeWipe(name string, freeze, wipe bool, o Opt) *Scn {
	s := newScn(name, o)
	s.Tok = tokenID("tok")
	s.Dst = s.W.NewAccount("dst", addr32("dst.addr"))
	s.In = s.W.Input(s.systemCaller(), s.Dst.Addr, s.wild("t", [][]byte{s.Tok}))
	s.Fn, _ = builtInFunctions.NewESDTFreezeWipeFunc(s.W.Codec, freeze, wipe)
	return s
}

func scnFreeze(o Opt) *Scn   { return scnFreezeWipe("ESDTFreeze", true, false, o) }
func scnUnFreeze(o Opt) *Scn { return scnFreezeWipe("ESDTUnFreeze", false, false, o) }
func scnWipe(o Opt) *Scn     { return scnFreezeWipe("ESDTWipe", false, true, o) }

func scnPauseToggle(name string, pause bool, o Opt) *Scn {
	s := newScn(name, o)
	s.Tok = tokenID("tok")
	rcv := vmcommon.SystemAccountAddress
	if !o.FixedCaller && verif.Bool("rcv.differs") {
		rcv = addr32("rcv.addr")
	}
	s.W.Accounts.FaultSys = true
	s.In = s.W.Input(s.systemCaller(), rcv, s.wild("t", [][]byte{s.Tok}))
	s.Fn, _ = builtInFunctions.NewESDTPauseFunc(s.W.Accounts, pause)
	return s
}

func scnPause(o Opt) *Scn   { return scnPauseToggle("ESDTPause", true, o) }
func scnUnPause(o Opt) *Scn { return scnPauseToggle("ESDTUnPause", false, o) }

// roleArg is a role string: one of the protocol's constants or arbitrary bytes.
func roleArg(tag string) []byte {
	switch verif.Choose(tag+".kind", 4) {
	case 0:
		return []byte(vmcommon.ESDTRoleLocalMint)
	case 1:
		return []byte(vmcommon.ESDTRoleNFTCreate)
	case 2:
		return []byte(vmcommon.ESDTRoleNFTBurn)
	}
	return verif.Bytes(tag, 17)
}

func scnRoles(name string, set bool, o Opt) *Scn {
	s := newScn(name, o)
	s.W.Cfg.RolesMax = 2
	s.Tok = tokenID("tok")
	s.Dst = s.W.NewAccount("dst", addr32("dst.addr"))
	args := [][]byte{s.Tok, roleArg("role0")}
	if verif.Bool("two.roles") {
		args = append(args, roleArg("role1"))
	}
	s.In = s.W.Input(s.systemCaller(), s.Dst.Addr, s.wild("tbb", args))
	s.Fn, _ = builtInFunctions.NewESDTRolesFunc(s.W.Codec, set)
	return s
}

func scnSetRole(o Opt) *Scn   { return scnRoles("ESDTSetRole", true, o) }
func scnUnSetRole(o Opt) *Scn { return scnRoles("ESDTUnSetRole", false, o) }

// scnCreateRoleTransfer: at the current holder (caller = system contract, args = token, new
// holder) or at the next holder (args = token, counter).
func scnCreateRoleTransfer(o Opt) *Scn {
	s := newScn("ESDTNFTCreateRoleTransfer", o)
	s.W.Cfg.RolesMax = 2
	s.Tok = tokenID("tok")
	s.Dst = s.W.NewAccount("dst", addr32("dst.addr"))
	if !o.FixedCaller && verif.Bool("snd.local") {
		s.Snd = s.W.NewAccount("snd", addr32("snd.addr"))
	}
	var caller, arg1 []byte
	if verif.Bool("at.current.owner") {
		caller = vmcommon.ESDTSCAddress
		arg1 = verif.BytesOf("newowner", 32, 31)
		s.DstAddr = arg1
	} else {
		caller = addr32("caller.addr")
		arg1 = nonceArg("counter")
		if verif.Thorough() && verif.Bool("counter.8") {
			arg1 = verif.Bytes("counter8", 8)
		}
	}
	spec := "tn"
	if s.DstAddr != nil {
		spec = "ta"
	}
	s.In = s.W.Input(caller, s.Dst.Addr, s.wild(spec, [][]byte{s.Tok, arg1}))
	s.Fn, _ = builtInFunctions.NewESDTNFTCreateRoleTransfer(s.W.Codec, s.W.Accounts, s.W.Shards)
	return s
}

// ---------------------------------------------------------------------------------------
// account-level functions

func (s *Scn) sndDstPattern() {
	// account presence ∈ {(S,D), (S,nil), (nil,D)}; (S,D) may be the same account
	p := s.O.Presence - 1
	if p < 0 {
		p = verif.Choose("presence", 3)
	}
	switch p {
	case 0:
		s.Snd = s.W.NewAccount("snd", addr32("snd.addr")).WithFields()
		s.Dst = s.W.NewAccount("dst", addr32("dst.addr")).WithFields()
	case 1:
		s.Snd = s.W.NewAccount("snd", addr32("snd.addr")).WithFields()
	case 2:
		s.Dst = s.W.NewAccount("dst", addr32("dst.addr")).WithFields()
	case 3:
		// a call an account addresses to itself: the node hands the same account object in as
		// sender and as destination
		s.Snd = s.W.NewAccount("snd", addr32("snd.addr")).WithFields()
		s.Dst = s.Snd
	}
}

func (s *Scn) callerRecipient() ([]byte, []byte) {
	caller, rcv := addr32("caller.addr"), addr32("rcv.addr")
	if s.Snd != nil {
		caller = s.Snd.Addr
	}
	if s.Dst != nil {
		rcv = s.Dst.Addr
	}
	return caller, rcv
}

func scnClaimDeveloperRewards(o Opt) *Scn {
	s := newScn("ClaimDeveloperRewards", o)
	s.sndDstPattern()
	caller, rcv := s.callerRecipient()
	s.In = s.W.Input(caller, rcv, s.wild("", nil))
	g := s.prices()
	s.Fn = builtInFunctions.NewClaimDeveloperRewardsFunc(g.BuiltInCost.ClaimDeveloperRewards)
	s.finishPricing()
	s.Cost, s.Priced = s.Gas.BuiltInCost.ClaimDeveloperRewards, true
	s.Charge, s.ChargeOK = s.Cost, true
	return s
}

func scnChangeOwnerAddress(o Opt) *Scn {
	s := newScn("ChangeOwnerAddress", o)
	s.sndDstPattern()
	caller, rcv := s.callerRecipient()
	s.In = s.W.Input(caller, rcv, s.wild("a", [][]byte{verif.BytesOf("newowner", 32, 31)}))
	g := s.prices()
	s.Fn = builtInFunctions.NewChangeOwnerAddressFunc(g.BuiltInCost.ChangeOwnerAddress)
	s.finishPricing()
	s.Cost, s.Priced = s.Gas.BuiltInCost.ChangeOwnerAddress, true
	s.Charge, s.ChargeOK = s.Cost, true
	return s
}

// DNS is the configured DNS address set of the SetUserName scenario.
var scnDNS [][]byte

func scnSetUserName(o Opt) *Scn {
	s := newScn("SetUserName", o)
	if verif.Bool("dst.local") {
		s.Dst = s.W.NewAccount("dst", addr32("dst.addr")).WithFields()
	}
	dns := map[string]struct{}{}
	d0 := addr32("dns0")
	dns[string(d0)] = struct{}{}
	scnDNS = [][]byte{d0}
	caller := addr32("caller.addr")
	rcv := addr32("rcv.addr")
	if s.Dst != nil {
		rcv = s.Dst.Addr
	}
	s.In = s.W.Input(caller, rcv, s.wild("b", [][]byte{smallBytes("name")}))
	g := s.prices()
	s.Fn, _ = builtInFunctions.NewSaveUserNameFunc(g.BuiltInCost.SaveUserName, dns, verif.Bool("enableChange"))
	s.finishPricing()
	s.Cost, s.Priced = s.Gas.BuiltInCost.SaveUserName, true
	s.Charge, s.ChargeOK = s.Cost, s.Dst != nil
	return s
}

func keyArg(tag string) []byte {
	if small {
		return verif.BytesOf(tag, 0, 6)
	}
	if wide() {
		// around the 6-byte protected prefix and the 10-byte balance-key prefix
		return verif.BytesOf(tag, 0, 1, 5, 6, 7, 10)
	}
	return verif.BytesOf(tag, 0, 5, 6, 7)
}

func scnSaveKeyValue(o Opt) *Scn {
	s := newScn("SaveKeyValue", o)
	s.W.Cfg.RawOther = 2
	args := [][]byte{keyArg("k0"), verif.BytesLen("v0", 0, 2)}
	if verif.Bool("two.pairs") {
		args = append(args, keyArg("k1"), verif.BytesLen("v1", 0, 2))
	}
	args = s.wild("bbb", args)
	s.selfCall(args)
	g := s.prices()
	s.Fn, _ = builtInFunctions.NewSaveKeyValueStorageFunc(g.BaseOperationCost, g.BuiltInCost.SaveKeyValue)
	s.finishPricing()
	s.Cost, s.Priced = s.Gas.BuiltInCost.SaveKeyValue, true
	return s
}

// ---------------------------------------------------------------------------------------
// transfers

var noCall, call2, varyHash bool

func attachedCall(tag string, args [][]byte) [][]byte {
	if noCall {
		return args
	}
	n := 3
	if call2 {
		n = 4
	}
	switch verif.Choose(tag+".call", n) {
	case 1:
		args = append(args, smallBytes(tag+".func"))
	case 2:
		args = append(args, smallBytes(tag+".func"), smallBytes(tag+".arg0"))
	case 3:
		args = append(args, smallBytes(tag+".func"), smallBytes(tag+".arg0"), smallBytes(tag+".arg1"))
	}
	return args
}

func scnTransfer(o Opt) *Scn {
	s := newScn("ESDTTransfer", o)
	s.Tok, s.Amt = tokenID("tok"), amount("amt")
	args := s.wild("tnb", attachedCall("t", [][]byte{s.Tok, s.Amt}))
	s.sndDstPattern()
	caller, rcv := s.callerRecipient()
	s.DstAddr = rcv
	s.notSystem(rcv)
	if s.Dst == nil {
		// the node passes no destination account exactly when the recipient lives elsewhere
		verif.Assume(s.W.Shards.ComputeId(rcv) != s.W.Shards.Self)
	}
	s.In = s.W.Input(caller, rcv, args)
	g := s.prices()
	f, _ := builtInFunctions.NewESDTTransferFunc(g.BuiltInCost.ESDTTransfer, s.W.Codec, s.W.Pause, s.W.Shards)
	if !s.O.DefaultPayable {
		_ = f.SetPayableHandler(s.W.Payable)
	}
	s.Fn = f
	s.finishPricing()
	s.Cost, s.Priced = s.Gas.BuiltInCost.ESDTTransfer, true
	s.Charge, s.ChargeOK = s.Cost, s.Snd != nil
	return s
}

// transferredToken is an NFT/SFT payload as a sender side emits it.
func transferredToken(w *world.World, tok []byte, nonce uint64, qty *big.Int) []byte {
	t := &esdt.ESDigitalToken{Type: uint32(vmcommon.NonFungible), Value: new(big.Int).Set(qty)}
	t.TokenMetaData = &esdt.MetaData{Nonce: nonce, Name: verif.Bytes("p.name", 1), Creator: verif.Bytes("p.creator", 1),
		Royalties: verif.U32("p.royalties"), Hash: verif.Bytes("p.hash", 1), Attributes: verif.Bytes("p.attr", 1)}
	if varyHash {
		t.TokenMetaData.Hash = verif.BytesLen("p.hash.v", 0, 1)
	}
	if verif.Bool("p.hasuri") {
		t.TokenMetaData.URIs = [][]byte{verif.Bytes("p.uri", 1)}
	}
	return w.Codec.Pack(t)
}

func scnNFTTransfer(o Opt) *Scn {
	s := newScn("ESDTNFTTransfer", o)
	s.Tok, s.NonceB, s.Amt = tokenID("tok"), nonceArg("nonce"), amount("amt")
	g := s.prices()
	f, _ := builtInFunctions.NewESDTNFTTransferFunc(g.BuiltInCost.ESDTNFTTransfer, s.W.Codec, s.W.Pause, s.W.Accounts, s.W.Shards, g.BaseOperationCost)
	if !s.O.DefaultPayable {
		_ = f.SetPayableHandler(s.W.Payable)
	}
	s.Fn = f
	s.finishPricing()
	s.Cost, s.Priced = s.Gas.BuiltInCost.ESDTNFTTransfer, true
	if o.Side == 2 {
		// destination side: protocol-generated message
		s.Dst = s.W.NewAccount("dst", addr32("dst.addr"))
		// a sender side always emits quantity argument == payload value
		qty := num(s.Amt)
		verif.Assume(qty.Sign() > 0)
		n := nonceOf(s.NonceB)
		verif.Assume(n > 0)
		payload := transferredToken(s.W, s.Tok, n, qty)
		args := attachedCall("t", [][]byte{s.Tok, s.NonceB, s.Amt, payload})
		s.In = s.W.Input(addr32("caller.addr"), s.Dst.Addr, args)
		// a delivery comes from another shard: the sender is not the recipient
		verif.Assume(!verif.BytesEq(s.In.CallerAddr, s.In.RecipientAddr))
		return s
	}
	s.userSender()
	s.DstAddr = verif.BytesOf("dest", 32, 31)
	s.notSystem(s.DstAddr)
	args := attachedCall("t", [][]byte{s.Tok, s.NonceB, s.Amt, s.DstAddr})
	if o.CrossOnly {
		s.W.Shards.Set(s.DstAddr, 1)
	}
	if o.SameOnly {
		s.W.Shards.Set(s.DstAddr, s.W.Shards.Self)
	}
	if o.Wild {
		s.DstAddr = nil
		args = s.wild("tnnab", args)
	}
	s.In = s.W.Input(s.Snd.Addr, s.Snd.Addr, args)
	return s
}

// MultiItem is one (token, nonce, quantity) of a multi-transfer.
type MultiItem struct {
	Tok, NonceB, Amt []byte
}

var scnItems []MultiItem

func scnMultiTransfer(o Opt) *Scn {
	s := newScn("MultiESDTNFTTransfer", o)
	g := s.prices()
	f, _ := builtInFunctions.NewESDTNFTMultiTransferFunc(g.BuiltInCost.ESDTNFTMultiTransfer, s.W.Codec, s.W.Pause, s.W.Accounts, s.W.Shards, g.BaseOperationCost, verif.U32("activation"), s.W.Epochs)
	if !s.O.DefaultPayable {
		_ = f.SetPayableHandler(s.W.Payable)
	}
	s.Fn = f
	s.finishPricing()
	s.Cost, s.Priced = s.Gas.BuiltInCost.ESDTNFTMultiTransfer, true
	k := o.MultiK
	if k == 0 {
		k = 1 + verif.Choose("ntokens", 2)
	}
	scnItems = nil
	if o.Side == 2 {
		s.Dst = s.W.NewAccount("dst", addr32("dst.addr"))
		args := [][]byte{{byte(k)}}
		for i := 0; i < k; i++ {
			it := MultiItem{Tok: tokenID("tok"), NonceB: verif.BytesOf("nonce", 1, 2)}
			if small {
				it.NonceB = verif.Bytes("nonce", 1)
			}
			n := nonceOf(it.NonceB)
			var third []byte
			if verif.Bool("item.nft") {
				verif.Assume(n > 0)
				qty := verif.Int("p.qty")
				verif.Assume(qty.Sign() > 0)
				third = transferredToken(s.W, it.Tok, n, qty)
			} else {
				it.NonceB = []byte{0}
				third = verif.BytesOf("item.amt", 1, 9)
				if small && !fullAmounts {
					third = verif.Bytes("item.amt", 1)
				}
				verif.Assume(third[0] != 0)
			}
			it.Amt = third
			scnItems = append(scnItems, it)
			args = append(args, it.Tok, it.NonceB, third)
		}
		args = attachedCall("t", args)
		s.In = s.W.Input(addr32("caller.addr"), s.Dst.Addr, args)
		verif.Assume(!verif.BytesEq(s.In.CallerAddr, s.In.RecipientAddr))
		return s
	}
	s.userSender()
	s.DstAddr = verif.BytesOf("dest", 32, 31)
	s.notSystem(s.DstAddr)
	args := [][]byte{s.DstAddr, new(big.Int).SetUint64(uint64(k)).Bytes()}
	for i := 0; i < k; i++ {
		it := MultiItem{Tok: tokenID("tok"), NonceB: nonceArg("nonce"), Amt: amount("amt")}
		if o.SameItems {
			it = MultiItem{Tok: []byte("AB"), NonceB: []byte{}, Amt: []byte{1}}
		}
		scnItems = append(scnItems, it)
		args = append(args, it.Tok, it.NonceB, it.Amt)
	}
	args = attachedCall("t", args)
	if o.CrossOnly {
		s.W.Shards.Set(s.DstAddr, 1)
	}
	if o.SameOnly {
		s.W.Shards.Set(s.DstAddr, s.W.Shards.Self)
	}
	if o.Wild {
		s.DstAddr = nil
		args = s.wild("antnntnn|antnn", args)
	}
	s.In = s.W.Input(s.Snd.Addr, s.Snd.Addr, args)
	return s
}
