//go:build verif

package props

import (
	"math/big"

	"github.com/ElrondNetwork/elrond-vm-common/builtInFunctions"
	"github.com/ElrondNetwork/elrond-vm-common/data/esdt"
	"github.com/ElrondNetwork/elrond-vm-common/zz_verif/verif"
	"github.com/ElrondNetwork/elrond-vm-common/zz_verif/world"
)

func init() {
	reg("C02_LocalBurn", C02_LocalBurn)
	reg("C02_LocalMint", C02_LocalMint)
}

// amount returns the numeric argument: lengths {0,1,8,9} (quick) so that zero, one-byte,
// 2^64-1 and multi-word values are in range; every length 0..16 (thorough).
var fullAmounts bool

func amount(tag string) []byte {
	if small && !fullAmounts {
		return verif.Bytes(tag, 1)
	}
	if wide() {
		return verif.BytesLen(tag, 0, 16)
	}
	return verif.BytesOf(tag, 0, 1, 8, 9)
}

func tokenID(tag string) []byte {
	if small {
		return verif.Bytes(tag, 2)
	}
	if wide() {
		return verif.BytesLen(tag, 0, 3)
	}
	return verif.BytesOf(tag, 0, 2)
}

// supplyCheck is the oracle shared by the single-entry supply functions: on success the
// caller's entry moved by exactly sign*amount, stays non-negative and nothing else moved.
func supplyCheck(w *world.World, snd *world.Account, key []byte, amount *big.Int, sign int, err error) {
	pre, post := prePost(w, snd, key)
	if err == nil {
		want := new(big.Int).Add(pre, amount)
		if sign < 0 {
			want = new(big.Int).Sub(pre, amount)
		}
		verif.Assert("delta-equals-amount", post.Cmp(want) == 0)
		verif.Assert("post-nonnegative", post.Sign() >= 0)
		verif.Assert("no-overdraft", verif.Or(sign > 0, amount.Cmp(pre) <= 0))
		onlyWrites("frame-only-own-entry", w, snd, key)
		verif.Reach("success", true)
		if sign < 0 {
			verif.Reach("success-exact-balance", amount.Cmp(pre) == 0)
		}
	} else {
		if err == builtInFunctions.ErrInsufficientFunds || err == builtInFunctions.ErrInvalidNFTQuantity {
			verif.Assert("insufficient-only-when-overdraft", verif.And(sign < 0, amount.Cmp(pre) > 0))
			verif.Reach("overdraft-rejected", true)
		}
	}
	verif.ObserveBool("ok", err == nil)
	verif.ObserveInt("pre", pre)
	verif.ObserveInt("post", post)
}

func C02_LocalBurn() {
	w := world.New(world.Config{})
	snd := w.NewAccount("snd", verif.Bytes("snd.addr", 32))
	tok := tokenID("tok")
	amt := amount("amt")
	in := w.Input(snd.Addr, snd.Addr, [][]byte{tok, amt})
	f, _ := builtInFunctions.NewESDTLocalBurnFunc(verif.U64("cost"), w.Codec, w.Pause, &world.RolesStub{W: w})
	_, err := call(f, snd, nil, in)
	supplyCheck(w, snd, tokenKey(tok), num(amt), -1, err)
}

func C02_LocalMint() {
	w := world.New(world.Config{})
	snd := w.NewAccount("snd", verif.Bytes("snd.addr", 32))
	tok := tokenID("tok")
	amt := amount("amt")
	in := w.Input(snd.Addr, snd.Addr, [][]byte{tok, amt})
	f, _ := builtInFunctions.NewESDTLocalMintFunc(verif.U64("cost"), w.Codec, w.Pause, &world.RolesStub{W: w})
	_, err := call(f, snd, nil, in)
	supplyCheck(w, snd, tokenKey(tok), num(amt), +1, err)
}

func init() { reg("C02_SaveKeyValueBalanceKeys", C02_SaveKeyValueBalanceKeys) }

// C02_SaveKeyValueBalanceKeys: SaveKeyValue, driven with keys that ARE balance entries
// (ELRONDesdt‖token and ELRONDesdt‖token‖nonce, of the caller itself) at any position of a
// 1..2 pair list (1..3 thorough) and with values that decode to a token of arbitrary
// quantity, to nothing, or are empty (a delete), changes no balance entry: nothing is
// written under a balance key of any account. (The generated C02_SaveKeyValue scenario keeps
// its keys short for speed and so never names a balance key.)
func C02_SaveKeyValueBalanceKeys() {
	s := newScn("SaveKeyValue", Opt{GasEnough: true, NoRAE: true, Direct: true, FixedCaller: true})
	s.W.Cfg.RawOther = 2
	max := 2
	if verif.Thorough() {
		max = 3
	}
	pairs := 1 + verif.Choose("pairs", max)
	tags := []string{"p0", "p1", "p2"}
	var args [][]byte
	nBal := 0
	firstPlain, laterBal := false, false
	for i := 0; i < pairs; i++ {
		tag := tags[i]
		var k, v []byte
		kind := verif.Choose(tag+".key", 3)
		if i == 0 {
			firstPlain = kind == 0
		} else if kind != 0 {
			laterBal = true
		}
		switch kind {
		case 0:
			k = verif.Bytes(tag+".plain", 1)
		case 1:
			k = append(append([]byte{}, world.TokenPrefix...), verif.Bytes(tag+".tok", 2)...)
			nBal++
		case 2:
			k = append(append([]byte{}, world.TokenPrefix...), verif.Bytes(tag+".toknonce", 3)...)
			nBal++
		}
		switch verif.Choose(tag+".val", 3) {
		case 0:
			v = []byte{}
		case 1:
			v = verif.Bytes(tag+".raw", 2)
		case 2:
			q := verif.Int(tag + ".qty")
			v = s.W.Codec.Pack(&esdt.ESDigitalToken{Value: q})
		}
		args = append(args, k, v)
	}
	s.selfCall(args)
	g := s.prices()
	s.Fn, _ = builtInFunctions.NewSaveKeyValueStorageFunc(g.BaseOperationCost, g.BuiltInCost.SaveKeyValue)
	s.finishPricing()
	s.Run()
	ok := s.Err == nil
	for _, wr := range s.W.Log {
		verif.Assert("no-write-under-a-balance-key", verif.Or(wr.Kind != "kv", world.KeyClass(wr.Key) != "token"))
	}
	for _, a := range s.W.Accounts.Known {
		for _, c := range a.Cells {
			if world.KeyClass(c.Key) == "token" {
				verif.Assert("balance-entry-unchanged", len(c.Init) == len(c.Cur) && verif.BytesEq(c.Init, c.Cur))
			}
		}
	}
	if nBal > 0 {
		verif.Assert("balance-key-rejected", !ok)
	}
	verif.Reach("accepted-plain-keys", verif.And(ok, nBal == 0))
	verif.Reach("rejected-balance-key-first", verif.And(!ok, nBal > 0))
	verif.Reach("rejected-balance-key-later", verif.And(!ok, firstPlain, laterBal))
	verif.ObserveBool("ok", ok)
}

func init() {
	reg("C02_TransferSameShard", C02_TransferSameShard)
	reg("C02_NFTTransferSameShard", C02_NFTTransferSameShard)
	reg("C02_MultiTransferSameShard", C02_MultiTransferSameShard)
}

// supplyOpt: a transfer whose two legs run in one call (sender and destination on the executing
// shard), so that "leaves the supply unchanged" is visible in a single step: what the sender
// loses is what the destination gains, per (token, nonce), and nothing else is written.
var supplyOpt = Opt{GasEnough: true, NoRAE: true, Direct: true, Small: true, NoFrozen: true, NoPause: true, Split1: true, NoURIs: true, NoCall: true, FullAmounts: true}

func C02_TransferSameShard() {
	o := supplyOpt
	o.Presence = 1
	sendCheck(scnTransfer(o))
}

func C02_NFTTransferSameShard() {
	o := supplyOpt
	o.SameOnly = true
	sendCheck(scnNFTTransfer(o))
}

func C02_MultiTransferSameShard() {
	o := supplyOpt
	o.SameOnly, o.MultiK = true, 1
	sendCheck(scnMultiTransfer(o))
}

func init() {
	reg("C02_NFTAddQuantityWideNonce", C02_NFTAddQuantityWideNonce)
	reg("C02_NFTBurnWideNonce", C02_NFTBurnWideNonce)
}

// wideNonceOpt is the C02 family's option set with the nonce argument at 8 and 9 bytes: a nonce
// beyond the machine word (2^64 and its multiples read as 0 after truncation) must not turn an NFT
// operation into one on the fungible entry.
var wideNonceOpt = Opt{GasEnough: true, NoRAE: true, Direct: true, NoCall: true, FixedCaller: true, NoPause: true, Small: true, NoURIs: true}

func C02_NFTAddQuantityWideNonce() {
	wideNonce = true
	s := scnNFTAddQuantity(wideNonceOpt)
	supplyOracle(s)
	fungibleUntouched(s)
}

func C02_NFTBurnWideNonce() {
	wideNonce = true
	s := scnNFTBurn(wideNonceOpt)
	supplyOracle(s)
	fungibleUntouched(s)
}

// fungibleUntouched: an NFT operation (its nonce argument is not zero) never writes an entry that
// was a fungible holding (present, no metadata) - whatever the nonce truncates to.
func fungibleUntouched(s *Scn) {
	verif.Assume(num(s.NonceB).Sign() != 0)
	for _, wr := range s.W.Log {
		if wr.Kind != "kv" || world.KeyClass(wr.Key) != "token" {
			continue
		}
		c := wr.Acct.Find(wr.Key)
		if c == nil || c.Blind || len(c.Init) == 0 {
			continue
		}
		t := s.W.Codec.Token(c.Init)
		verif.Assert("nft-operation-leaves-fungible-entries-alone", verif.Or(t == nil, t != nil && t.TokenMetaData != nil))
	}
}
