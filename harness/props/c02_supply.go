//go:build verif

package props

import (
	"math/big"

	"github.com/ElrondNetwork/elrond-vm-common/builtInFunctions"
	"github.com/ElrondNetwork/elrond-vm-common/zz_verif/verif"
	"github.com/ElrondNetwork/elrond-vm-common/zz_verif/world"
)

func init() {
	reg("C02_LocalBurn", C02_LocalBurn)
	reg("C02_LocalMint", C02_LocalMint)
}

// amount returns the numeric argument: lengths {0,1,8,9} (quick) so that zero, one-byte,
// 2^64-1 and multi-word values are in range; every length 0..16 (thorough).
var fullAmounts bool

func amount(tag string) []byte {
	if small && !fullAmounts {
		return verif.Bytes(tag, 1)
	}
	if verif.Thorough() {
		return verif.BytesLen(tag, 0, 16)
	}
	return verif.BytesOf(tag, 0, 1, 8, 9)
}

func tokenID(tag string) []byte {
	if small {
		return verif.Bytes(tag, 2)
	}
	if verif.Thorough() {
		return verif.BytesLen(tag, 0, 3)
	}
	return verif.BytesOf(tag, 0, 2)
}

// supplyCheck is the oracle shared by the single-entry supply functions: on success the
// caller's entry moved by exactly sign*amount, stays non-negative and nothing else moved.
func supplyCheck(w *world.World, snd *world.Account, key []byte, amount *big.Int, sign int, err error) {
	pre, post := prePost(w, snd, key)
	if err == nil {
		want := new(big.Int).Add(pre, amount)
		if sign < 0 {
			want = new(big.Int).Sub(pre, amount)
		}
		verif.Assert("delta-equals-amount", post.Cmp(want) == 0)
		verif.Assert("post-nonnegative", post.Sign() >= 0)
		verif.Assert("no-overdraft", verif.Or(sign > 0, amount.Cmp(pre) <= 0))
		onlyWrites("frame-only-own-entry", w, snd, key)
		verif.Reach("success", true)
		if sign < 0 {
			verif.Reach("success-exact-balance", amount.Cmp(pre) == 0)
		}
	} else {
		if err == builtInFunctions.ErrInsufficientFunds || err == builtInFunctions.ErrInvalidNFTQuantity {
			verif.Assert("insufficient-only-when-overdraft", verif.And(sign < 0, amount.Cmp(pre) > 0))
			verif.Reach("overdraft-rejected", true)
		}
	}
	verif.ObserveBool("ok", err == nil)
	verif.ObserveInt("pre", pre)
	verif.ObserveInt("post", post)
}

func C02_LocalBurn() {
	w := world.New(world.Config{})
	snd := w.NewAccount("snd", verif.Bytes("snd.addr", 32))
	tok := tokenID("tok")
	amt := amount("amt")
	in := w.Input(snd.Addr, snd.Addr, [][]byte{tok, amt})
	f, _ := builtInFunctions.NewESDTLocalBurnFunc(verif.U64("cost"), w.Codec, w.Pause, &world.RolesStub{W: w})
	_, err := call(f, snd, nil, in)
	supplyCheck(w, snd, tokenKey(tok), num(amt), -1, err)
}

func C02_LocalMint() {
	w := world.New(world.Config{})
	snd := w.NewAccount("snd", verif.Bytes("snd.addr", 32))
	tok := tokenID("tok")
	amt := amount("amt")
	in := w.Input(snd.Addr, snd.Addr, [][]byte{tok, amt})
	f, _ := builtInFunctions.NewESDTLocalMintFunc(verif.U64("cost"), w.Codec, w.Pause, &world.RolesStub{W: w})
	_, err := call(f, snd, nil, in)
	supplyCheck(w, snd, tokenKey(tok), num(amt), +1, err)
}
