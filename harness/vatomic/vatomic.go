//go:build verif

// Package vatomic stands in for sync/atomic in the NATIVE replay build (see zz_verif/vsync):
// every operation first yields to the replay scheduler, then performs the real operation.
package vatomic

import (
	"sync/atomic"

	"github.com/ElrondNetwork/elrond-vm-common/zz_verif/verif"
)

func LoadInt32(p *int32) int32    { verif.SchedYield(); return atomic.LoadInt32(p) }
func LoadInt64(p *int64) int64    { verif.SchedYield(); return atomic.LoadInt64(p) }
func LoadUint32(p *uint32) uint32 { verif.SchedYield(); return atomic.LoadUint32(p) }
func LoadUint64(p *uint64) uint64 { verif.SchedYield(); return atomic.LoadUint64(p) }

func StoreInt32(p *int32, v int32)    { verif.SchedYield(); atomic.StoreInt32(p, v) }
func StoreInt64(p *int64, v int64)    { verif.SchedYield(); atomic.StoreInt64(p, v) }
func StoreUint32(p *uint32, v uint32) { verif.SchedYield(); atomic.StoreUint32(p, v) }
func StoreUint64(p *uint64, v uint64) { verif.SchedYield(); atomic.StoreUint64(p, v) }

func SwapInt32(p *int32, v int32) int32     { verif.SchedYield(); return atomic.SwapInt32(p, v) }
func SwapInt64(p *int64, v int64) int64     { verif.SchedYield(); return atomic.SwapInt64(p, v) }
func SwapUint32(p *uint32, v uint32) uint32 { verif.SchedYield(); return atomic.SwapUint32(p, v) }
func SwapUint64(p *uint64, v uint64) uint64 { verif.SchedYield(); return atomic.SwapUint64(p, v) }

func AddInt32(p *int32, d int32) int32     { verif.SchedYield(); return atomic.AddInt32(p, d) }
func AddInt64(p *int64, d int64) int64     { verif.SchedYield(); return atomic.AddInt64(p, d) }
func AddUint32(p *uint32, d uint32) uint32 { verif.SchedYield(); return atomic.AddUint32(p, d) }
func AddUint64(p *uint64, d uint64) uint64 { verif.SchedYield(); return atomic.AddUint64(p, d) }

func CompareAndSwapInt32(p *int32, o, n int32) bool {
	verif.SchedYield()
	return atomic.CompareAndSwapInt32(p, o, n)
}
func CompareAndSwapInt64(p *int64, o, n int64) bool {
	verif.SchedYield()
	return atomic.CompareAndSwapInt64(p, o, n)
}
func CompareAndSwapUint32(p *uint32, o, n uint32) bool {
	verif.SchedYield()
	return atomic.CompareAndSwapUint32(p, o, n)
}
func CompareAndSwapUint64(p *uint64, o, n uint64) bool {
	verif.SchedYield()
	return atomic.CompareAndSwapUint64(p, o, n)
}

// Value is atomic.Value with scheduling points.
type Value struct{ v atomic.Value }

func (x *Value) Load() interface{}   { verif.SchedYield(); return x.v.Load() }
func (x *Value) Store(v interface{}) { verif.SchedYield(); x.v.Store(v) }
