//go:build verif

// Package vsync stands in for package sync in the NATIVE replay build of the repo's packages
// (the build's overlay rewrites their `"sync"` import to this package; nothing in /repo is
// changed and the symbolic engine never sees it). Outside a scheduled goroutine body the
// types behave exactly like the real ones; inside one, every operation yields to the replay
// scheduler of zz_verif/verif so that the recorded interleaving is followed.
package vsync

import (
	"sync"

	"github.com/ElrondNetwork/elrond-vm-common/zz_verif/verif"
)

// WaitGroup, Once, Pool are passed through.
type (
	WaitGroup = sync.WaitGroup
	Once      = sync.Once
	Pool      = sync.Pool
	Locker    = sync.Locker
)

// RWMutex is sync.RWMutex with scheduling points.
type RWMutex struct {
	mu sync.RWMutex
	st verif.LockState
}

func (m *RWMutex) Lock() {
	if verif.SchedActive() {
		verif.SchedLockOp(&m.st, "Lock")
		return
	}
	m.mu.Lock()
}

func (m *RWMutex) Unlock() {
	if verif.SchedActive() {
		verif.SchedLockOp(&m.st, "Unlock")
		return
	}
	m.mu.Unlock()
}

func (m *RWMutex) RLock() {
	if verif.SchedActive() {
		verif.SchedLockOp(&m.st, "RLock")
		return
	}
	m.mu.RLock()
}

func (m *RWMutex) RUnlock() {
	if verif.SchedActive() {
		verif.SchedLockOp(&m.st, "RUnlock")
		return
	}
	m.mu.RUnlock()
}

// Mutex is sync.Mutex with scheduling points.
type Mutex struct {
	mu sync.Mutex
	st verif.LockState
}

func (m *Mutex) Lock() {
	if verif.SchedActive() {
		verif.SchedLockOp(&m.st, "Lock")
		return
	}
	m.mu.Lock()
}

func (m *Mutex) Unlock() {
	if verif.SchedActive() {
		verif.SchedLockOp(&m.st, "Unlock")
		return
	}
	m.mu.Unlock()
}
