package sym

// Small-domain enumeration (an independence optimisation in the style of KLEE's independent
// constraint sets): when a query only depends on variables of a few bits in total, and no
// path-condition conjunct ties those variables to others, the query is decided exactly by
// evaluating the terms on every assignment of those variables instead of asking the solver.
// Terms containing integer (big.Int) operators are never enumerated.

const enumMaxBits = 12
const enumMaxBitsValues = 17

type suppInfo struct {
	vars []*Term
	bits int
	ok   bool // false: contains an operator the evaluator does not handle (Int theory)
}

func (c *TermCtx) support(t *Term) *suppInfo {
	if c.supp == nil {
		c.supp = map[*Term]*suppInfo{}
	}
	if s, ok := c.supp[t]; ok {
		return s
	}
	s := &suppInfo{ok: true}
	switch t.Op {
	case "const":
		if t.K == KInt {
			s.ok = false
		}
	case "var":
		if t.K == KInt {
			s.ok = false
		} else {
			s.vars = []*Term{t}
			if t.K == KBool {
				s.bits = 1
			} else {
				s.bits = t.W
			}
		}
	default:
		if t.K == KInt || t.Op == "bv2nat" || t.Op == "int2bv" || t.Op == "<" || t.Op == "<=" || t.Op == ">" || t.Op == ">=" {
			s.ok = false
			break
		}
		seen := map[*Term]bool{}
		for _, a := range t.Args {
			as := c.support(a)
			if !as.ok {
				s.ok = false
				break
			}
			for _, v := range as.vars {
				if !seen[v] {
					seen[v] = true
					s.vars = append(s.vars, v)
					if v.K == KBool {
						s.bits++
					} else {
						s.bits += v.W
					}
				}
			}
			if s.bits > 64 {
				// too wide to ever enumerate: stop collecting precisely
				s.bits = 65
			}
		}
	}
	c.supp[t] = s
	return s
}

// eval computes the value of a BV/Bool term under an assignment of its variables.
func (c *TermCtx) eval(t *Term, env map[*Term]uint64, memo map[*Term]uint64) uint64 {
	if v, ok := memo[t]; ok {
		return v
	}
	var r uint64
	b2u := func(b bool) uint64 {
		if b {
			return 1
		}
		return 0
	}
	arg := func(i int) uint64 { return c.eval(t.Args[i], env, memo) }
	switch t.Op {
	case "const":
		r = t.CU
	case "var":
		r = env[t]
	case "not":
		r = 1 - arg(0)
	case "and":
		r = 1
		for i := range t.Args {
			if arg(i) == 0 {
				r = 0
				break
			}
		}
	case "or":
		r = 0
		for i := range t.Args {
			if arg(i) != 0 {
				r = 1
				break
			}
		}
	case "ite":
		if arg(0) != 0 {
			r = arg(1)
		} else {
			r = arg(2)
		}
	case "=":
		r = b2u(arg(0) == arg(1))
	case "bvnot":
		r = ^arg(0) & mask(t.W)
	case "bvneg":
		r = (-arg(0)) & mask(t.W)
	case "extract":
		r = (arg(0) >> uint(t.P1)) & mask(t.W)
	case "zext":
		r = arg(0)
	case "sext":
		r = uint64(sext(arg(0), t.Args[0].W)) & mask(t.W)
	case "concat":
		r = (arg(0)<<uint(t.Args[1].W) | arg(1)) & mask(t.W)
	case "table":
		tbl := c.tables[t.P0]
		i := arg(0)
		if i < uint64(len(tbl)) {
			r = uint64(tbl[i])
		}
	case "bvult", "bvule", "bvugt", "bvuge", "bvslt", "bvsle", "bvsgt", "bvsge":
		x, y := arg(0), arg(1)
		w := t.Args[0].W
		sx, sy := sext(x, w), sext(y, w)
		switch t.Op {
		case "bvult":
			r = b2u(x < y)
		case "bvule":
			r = b2u(x <= y)
		case "bvugt":
			r = b2u(x > y)
		case "bvuge":
			r = b2u(x >= y)
		case "bvslt":
			r = b2u(sx < sy)
		case "bvsle":
			r = b2u(sx <= sy)
		case "bvsgt":
			r = b2u(sx > sy)
		case "bvsge":
			r = b2u(sx >= sy)
		}
	default:
		x, y := arg(0), arg(1)
		switch t.Op {
		case "bvsdiv", "bvsrem":
			if y == 0 {
				// SMT-LIB totalisation
				sx := sext(x, t.W)
				if t.Op == "bvsrem" {
					r = x
				} else if sx < 0 {
					r = 1
				} else {
					r = mask(t.W)
				}
			} else {
				r, _ = foldBV(t.Op, t.W, x, y)
			}
		default:
			v, ok := foldBV(t.Op, t.W, x, y)
			if !ok {
				panic("enum: cannot evaluate " + t.Op)
			}
			r = v
		}
	}
	memo[t] = r
	return r
}

// enumDecide tries to decide satisfiability of pc ∧ extra by enumeration. known is false when
// the query is outside the optimisation's reach.
func (in *Interp) enumDecide(extra []*Term) (sat bool, known bool) {
	tc := in.tc
	var vars []*Term
	seen := map[*Term]bool{}
	bits := 0
	for _, e := range extra {
		s := tc.support(e)
		if !s.ok || s.bits > enumMaxBits {
			return false, false
		}
		for _, v := range s.vars {
			if !seen[v] {
				seen[v] = true
				vars = append(vars, v)
				if v.K == KBool {
					bits++
				} else {
					bits += v.W
				}
			}
		}
	}
	if bits > enumMaxBits {
		return false, false
	}
	if len(vars) == 0 {
		return false, false
	}
	// path-condition conjuncts that mention these variables must mention nothing else
	var rel []*Term
	for _, p := range in.pc {
		s := tc.support(p)
		touches := false
		for _, v := range s.vars {
			if seen[v] {
				touches = true
				break
			}
		}
		if !s.ok {
			// an Int-theory conjunct: independent only if it shares no variable, which we
			// cannot tell from a truncated support; be conservative
			if in.intConjunctMentions(p, seen) {
				return false, false
			}
			continue
		}
		if !touches {
			continue
		}
		for _, v := range s.vars {
			if !seen[v] {
				return false, false
			}
		}
		if s.bits > 64 {
			return false, false
		}
		rel = append(rel, p)
	}
	total := uint64(1) << uint(bits)
	env := make(map[*Term]uint64, len(vars))
	for a := uint64(0); a < total; a++ {
		x := a
		for _, v := range vars {
			w := 1
			if v.K != KBool {
				w = v.W
			}
			env[v] = x & mask(w)
			x >>= uint(w)
		}
		memo := map[*Term]uint64{}
		ok := true
		for _, p := range rel {
			if tc.eval(p, env, memo) == 0 {
				ok = false
				break
			}
		}
		if !ok {
			continue
		}
		for _, e := range extra {
			if tc.eval(e, env, memo) == 0 {
				ok = false
				break
			}
		}
		if ok {
			return true, true
		}
	}
	return false, true
}

// intConjunctMentions walks an Int-theory conjunct looking for one of the given variables.
func (in *Interp) intConjunctMentions(p *Term, vars map[*Term]bool) bool {
	visited := map[*Term]bool{}
	var walk func(t *Term) bool
	walk = func(t *Term) bool {
		if visited[t] {
			return false
		}
		visited[t] = true
		if t.Op == "var" {
			return vars[t]
		}
		for _, a := range t.Args {
			if walk(a) {
				return true
			}
		}
		return false
	}
	return walk(p)
}

// enumValues computes the exact set of values a BV term can take under the path condition,
// when its variables are few and independent of the rest (see enumDecide).
func (in *Interp) enumValues(t *Term) (map[uint64]bool, bool) {
	tc := in.tc
	s := tc.support(t)
	if !s.ok || s.bits > enumMaxBitsValues || len(s.vars) == 0 {
		return nil, false
	}
	seen := map[*Term]bool{}
	for _, v := range s.vars {
		seen[v] = true
	}
	var rel []*Term
	for _, p := range in.pc {
		ps := tc.support(p)
		if !ps.ok {
			if in.intConjunctMentions(p, seen) {
				return nil, false
			}
			continue
		}
		touches := false
		for _, v := range ps.vars {
			if seen[v] {
				touches = true
				break
			}
		}
		if !touches {
			continue
		}
		if ps.bits > 64 {
			return nil, false
		}
		for _, v := range ps.vars {
			if !seen[v] {
				return nil, false
			}
		}
		rel = append(rel, p)
	}
	out := map[uint64]bool{}
	total := uint64(1) << uint(s.bits)
	env := make(map[*Term]uint64, len(s.vars))
	for a := uint64(0); a < total; a++ {
		x := a
		for _, v := range s.vars {
			w := 1
			if v.K != KBool {
				w = v.W
			}
			env[v] = x & mask(w)
			x >>= uint(w)
		}
		memo := map[*Term]uint64{}
		ok := true
		for _, p := range rel {
			if tc.eval(p, env, memo) == 0 {
				ok = false
				break
			}
		}
		if ok {
			out[tc.eval(t, env, memo)] = true
		}
	}
	return out, true
}
