package sym

import (
	"go/token"
	"go/types"
	"sync"

	"golang.org/x/tools/go/ssa"
)

// Pure-callee summarisation. A call of a small side-effect-free function (scalar / string /
// byte-slice parameters, one scalar result) with symbolic arguments is not allowed to fork the
// caller's path: the function is explored on its own (local decision prefixes, feasibility
// asked under the caller's path condition plus the local conditions) and its result is merged
// into one term, ite(C1, v1, ite(C2, v2, …)). A loop with a data-dependent early exit over n
// symbolic bytes (`for _, b := range x { if b != 0 { return false } }`) then costs n+1 local
// runs instead of multiplying the number of caller paths by n+1. Purity is decided statically
// and conservatively (pureFunc); anything unexpected at run time (a possible panic, a forced
// concretisation, too many local paths) aborts the summary and the call is executed normally,
// which is always sound because the function has no side effects.

type sumState struct {
	prefix  []int
	taken   []int
	conds   []*Term
	newWork [][]int
}

type sumAbort struct{ why string }

const sumMaxPaths = 48

var pureMemo sync.Map // *ssa.Function -> bool

var pureLibs = map[string]bool{"bytes": true, "strings": true, "internal/bytealg": true, "unicode/utf8": true, "math/bits": true}

func scalarType(t types.Type) bool {
	b, ok := t.Underlying().(*types.Basic)
	return ok && b.Info()&(types.IsBoolean|types.IsInteger) != 0
}

func summarisableParam(t types.Type) bool {
	switch u := t.Underlying().(type) {
	case *types.Basic:
		return u.Info()&(types.IsBoolean|types.IsInteger|types.IsString) != 0
	case *types.Slice:
		return scalarType(u.Elem())
	}
	return false
}

// localRoot reports whether the address / slice value v is derived only from memory allocated
// inside its own function.
func localRoot(v ssa.Value, depth int) bool {
	if depth > 12 {
		return false
	}
	switch x := v.(type) {
	case *ssa.Alloc, *ssa.MakeSlice:
		return true
	case *ssa.IndexAddr:
		return localRoot(x.X, depth+1)
	case *ssa.FieldAddr:
		return localRoot(x.X, depth+1)
	case *ssa.Slice:
		return localRoot(x.X, depth+1)
	case *ssa.ChangeType:
		return localRoot(x.X, depth+1)
	case *ssa.Phi:
		for _, e := range x.Edges {
			if e == v {
				continue
			}
			if !localRoot(e, depth+1) {
				return false
			}
		}
		return true
	case *ssa.Call:
		// append / a slice returned by a pure library function is fresh only if we can tell
		if b, ok := x.Call.Value.(*ssa.Builtin); ok && b.Name() == "append" && len(x.Call.Args) > 0 {
			return localRoot(x.Call.Args[0], depth+1)
		}
	}
	return false
}

func pureFunc(fn *ssa.Function, seen map[*ssa.Function]bool) bool {
	if v, ok := pureMemo.Load(fn); ok {
		return v.(bool)
	}
	if seen[fn] {
		return true // recursion: judged by the rest of the body
	}
	seen[fn] = true
	ok := pureBody(fn, seen)
	pureMemo.Store(fn, ok)
	return ok
}

func pureBody(fn *ssa.Function, seen map[*ssa.Function]bool) bool {
	if len(fn.Blocks) == 0 || len(fn.FreeVars) > 0 || fn.Recover != nil {
		return false
	}
	for _, b := range fn.Blocks {
		for _, ins := range b.Instrs {
			switch x := ins.(type) {
			case *ssa.Alloc, *ssa.BinOp, *ssa.Convert, *ssa.ChangeType, *ssa.Index, *ssa.IndexAddr, *ssa.Field,
				*ssa.FieldAddr, *ssa.Slice, *ssa.Phi, *ssa.If, *ssa.Jump, *ssa.Return, *ssa.Extract, *ssa.MakeSlice,
				*ssa.DebugRef, *ssa.Next, *ssa.SliceToArrayPointer:
			case *ssa.UnOp:
				if x.Op == token.ARROW {
					return false
				}
				if x.Op == token.MUL {
					if _, isGlobal := x.X.(*ssa.Global); isGlobal {
						return false
					}
				}
			case *ssa.Lookup:
				if _, isMap := x.X.Type().Underlying().(*types.Map); isMap {
					return false
				}
			case *ssa.Range:
				if _, isMap := x.X.Type().Underlying().(*types.Map); isMap {
					return false
				}
			case *ssa.Store:
				if !localRoot(x.Addr, 0) {
					return false
				}
			case *ssa.Call:
				c := x.Common()
				if c.IsInvoke() {
					return false
				}
				if bi, ok := c.Value.(*ssa.Builtin); ok {
					switch bi.Name() {
					case "len", "cap", "min", "max":
					case "append", "copy":
						if len(c.Args) == 0 || !localRoot(c.Args[0], 0) {
							return false
						}
					default:
						return false
					}
					continue
				}
				callee := c.StaticCallee()
				if callee == nil {
					return false
				}
				if callee.Pkg != nil && pureLibs[callee.Pkg.Pkg.Path()] {
					continue
				}
				if !pureFunc(callee, seen) {
					return false
				}
			default:
				return false
			}
		}
	}
	return true
}

// summarisable: statically pure, parameters scalars / strings / scalar slices, one scalar result.
func summarisable(fn *ssa.Function) bool {
	if fn.Signature.Recv() != nil {
		return false
	}
	res := fn.Signature.Results()
	if res.Len() != 1 || !scalarType(res.At(0).Type()) {
		return false
	}
	ps := fn.Signature.Params()
	if ps.Len() == 0 {
		return false
	}
	for i := 0; i < ps.Len(); i++ {
		if !summarisableParam(ps.At(i).Type()) {
			return false
		}
	}
	return pureFunc(fn, map[*ssa.Function]bool{})
}

func symbolicValue(v Value) bool {
	switch x := v.(type) {
	case BV:
		return x.T != nil
	case Bool:
		return x.T != nil
	case Str:
		for _, b := range x.B {
			if b.T != nil {
				return true
			}
		}
	case Slice:
		for _, e := range x.A {
			if symbolicValue(e) {
				return true
			}
		}
	}
	return false
}

// trySummarise returns the merged result of fn(args), or ok=false when the call has to be
// executed normally.
func (in *Interp) trySummarise(fn *ssa.Function, args []Value, env []Value) (Value, bool) {
	if in.sum != nil || in.cfg.NoSummaries || in.sched != nil || !summarisable(fn) {
		return nil, false
	}
	anySym := false
	for i := range args {
		args[i] = force(args[i])
		if symbolicValue(args[i]) {
			anySym = true
		}
	}
	if !anySym {
		return nil, false
	}
	savedCur, savedDepth := in.cur, in.depth
	type result struct {
		conds []*Term
		val   Value
	}
	var results []result
	work := [][]int{nil}
	for len(work) > 0 {
		prefix := work[len(work)-1]
		work = work[:len(work)-1]
		if len(results) >= sumMaxPaths {
			return nil, false
		}
		st := &sumState{prefix: prefix}
		in.sum = st
		var ret Value
		aborted := false
		func() {
			defer func() {
				in.sum = nil
				if r := recover(); r != nil {
					in.cur, in.depth = savedCur, savedDepth
					switch r.(type) {
					case *goPanic, *pathEnd, sumAbort:
						aborted = true
					default:
						panic(r)
					}
				}
			}()
			ret = in.run(fn, args, env)
		}()
		if aborted {
			return nil, false
		}
		results = append(results, result{conds: st.conds, val: ret})
		work = append(work, st.newWork...)
	}
	if len(results) == 0 {
		return nil, false
	}
	in.sumHits++
	if len(results) == 1 {
		return results[0].val, true
	}
	last := results[len(results)-1]
	switch last.val.(type) {
	case Bool:
		var ors []*Term
		for _, r := range results {
			b, ok := r.val.(Bool)
			if !ok {
				return nil, false
			}
			ors = append(ors, in.tc.And(append(append([]*Term{}, r.conds...), in.boolTerm(b))...))
		}
		return in.mkBool(in.tc.Or(ors...)), true
	case BV:
		acc := in.bvTerm(last.val.(BV))
		for k := len(results) - 2; k >= 0; k-- {
			b, ok := results[k].val.(BV)
			if !ok || b.W != last.val.(BV).W {
				return nil, false
			}
			acc = in.tc.Ite(in.tc.And(results[k].conds...), in.bvTerm(b), acc)
		}
		return in.mkBV(acc), true
	}
	return nil, false
}

// sumDecide is decide() inside a summary run: local prefix, local conditions, nothing asserted.
func (in *Interp) sumDecide(n int, cond func(i int) *Term) int {
	st := in.sum
	pos := len(st.taken)
	if pos < len(st.prefix) {
		ch := st.prefix[pos]
		st.taken = append(st.taken, ch)
		in.sumAssume(cond(ch))
		return ch
	}
	first := -1
	for i := 0; i < n; i++ {
		c := cond(i)
		if c.IsConst() && c.CU == 0 {
			continue
		}
		var r Result
		if i == n-1 && first < 0 {
			r = Sat
		} else if c.IsConst() {
			r = Sat
		} else {
			r = in.sol.Check(append(append([]*Term{}, st.conds...), c)...)
		}
		if r == Unknown {
			panic(sumAbort{"solver unknown inside a summary"})
		}
		if r == Sat {
			if first < 0 {
				first = i
			} else {
				w := make([]int, pos+1)
				copy(w, st.taken[:pos])
				w[pos] = i
				st.newWork = append(st.newWork, w)
			}
		}
	}
	if first < 0 {
		panic(sumAbort{"no feasible alternative"})
	}
	st.taken = append(st.taken, first)
	in.sumAssume(cond(first))
	return first
}

func (in *Interp) sumAssume(c *Term) {
	if c.IsConst() {
		if c.CU == 0 {
			panic(sumAbort{"assume false"})
		}
		return
	}
	in.sum.conds = append(in.sum.conds, c)
}
