package sym

import (
	"fmt"
	"go/types"
	"math/big"

	"golang.org/x/tools/go/ssa"
)

// Value is any run-time value of the interpreted program.
//
//	BV        integers of every width (two's complement in W bits)
//	Bool      booleans
//	Str       strings: concrete length, per-byte BV8
//	*Value    pointers are Go pointers to slots (nil pointer = (*Value)(nil))
//	Slice     view on a backing []Value
//	*MapObj   maps (insertion ordered association list)
//	Iface     interface values
//	Struct    struct values (slot-stable: stores copy element-wise)
//	Array     array values
//	Tuple     multi-value results
//	*Closure  function values
//	Big       the contents of a math/big.Int struct
//	Float     float64 (concrete only)
type Value interface{}

type BV struct {
	W int
	C uint64
	T *Term // nil ⇒ concrete C
}

type Bool struct {
	C bool
	T *Term
}

type Str struct {
	B []BV // each W=8
}

type Slice struct {
	A   []Value // len(A) = len, cap(A) = cap
	Nil bool
}

type MapObj struct {
	Keys []Value
	Vals []Value
	KT   types.Type
}

type Iface struct {
	T types.Type // nil ⇒ nil interface
	V Value
}

type Struct struct{ F []Value }
type Array struct{ E []Value }
type Tuple []Value

type Closure struct {
	Fn    *ssa.Function
	Env   []Value
	Intr  string // non-empty: built-in / intrinsic by name
	Bound []Value
}

// Big is the content of a math/big.Int. FromBytes (when non-nil) are the big-endian bytes the
// magnitude was set from, which lets Uint64()/Bytes() stay in bit-vector land.
type Big struct {
	T         *Term // KInt
	FromBytes []BV
}

type Float struct{ F float64 }

// LazySlice is a []byte whose length is not yet decided (big.Int.Bytes() of a symbolic value).
// It is forced – forking on the length – only when an instruction looks inside it, so values
// that merely travel (log topics, return data nobody reads) cost no paths.
type LazySlice struct {
	thunk func() Slice
	done  bool
	val   Slice
}

func (l *LazySlice) get() Slice {
	if !l.done {
		l.val = l.thunk()
		l.done = true
		l.thunk = nil
	}
	return l.val
}

// force resolves a lazy slice; every other value passes through.
func force(v Value) Value {
	if l, ok := v.(*LazySlice); ok {
		return l.get()
	}
	return v
}

// Opaque stands for values the engine does not model (init-time leftovers).
type Opaque struct{ Tag string }

// rangeIter is the state of a Range instruction.
type rangeIter struct {
	m     *MapObj
	order []int
	s     Str
	pos   int
	isStr bool
}

func (b BV) String() string {
	if b.T == nil {
		return fmt.Sprintf("%d", b.C)
	}
	return fmt.Sprintf("sym%d", b.T.id)
}

func concBV(w int, v uint64) BV { return BV{W: w, C: v & mask(w)} }
func concBool(b bool) Bool      { return Bool{C: b} }

func strFromGo(s string) Str {
	b := make([]BV, len(s))
	for i := 0; i < len(s); i++ {
		b[i] = BV{W: 8, C: uint64(s[i])}
	}
	return Str{B: b}
}

// concreteString returns the Go string if every byte is concrete.
func (s Str) concrete() (string, bool) {
	buf := make([]byte, len(s.B))
	for i, b := range s.B {
		if b.T != nil {
			return "", false
		}
		buf[i] = byte(b.C)
	}
	return string(buf), true
}

func isBigInt(t types.Type) bool {
	n, ok := t.(*types.Named)
	if !ok {
		return false
	}
	o := n.Obj()
	return o.Pkg() != nil && o.Pkg().Path() == "math/big" && o.Name() == "Int"
}

func isNamed(t types.Type, pkg, name string) bool {
	n, ok := t.(*types.Named)
	if !ok {
		return false
	}
	o := n.Obj()
	return o.Pkg() != nil && o.Pkg().Path() == pkg && o.Name() == name
}

func intWidth(b *types.Basic) (int, bool) {
	switch b.Kind() {
	case types.Int8:
		return 8, true
	case types.Int16:
		return 16, true
	case types.Int32:
		return 32, true
	case types.Int64, types.Int, types.UntypedInt, types.UntypedRune:
		return 64, true
	case types.Uint8:
		return 8, false
	case types.Uint16:
		return 16, false
	case types.Uint32:
		return 32, false
	case types.Uint64, types.Uint, types.Uintptr:
		return 64, false
	}
	return 0, false
}

func isSigned(t types.Type) bool {
	if b, ok := t.Underlying().(*types.Basic); ok {
		_, s := intWidth(b)
		return s
	}
	return false
}

// zero returns the zero value of type t.
func (in *Interp) zero(t types.Type) Value {
	if isBigInt(t) {
		return Big{T: in.tc.IntConst64(0)}
	}
	switch u := t.Underlying().(type) {
	case *types.Basic:
		switch {
		case u.Info()&types.IsBoolean != 0:
			return Bool{}
		case u.Info()&types.IsInteger != 0:
			w, _ := intWidth(u)
			return BV{W: w}
		case u.Info()&types.IsString != 0:
			return Str{}
		case u.Info()&types.IsFloat != 0:
			return Float{}
		case u.Kind() == types.UnsafePointer:
			return (*Value)(nil)
		case u.Kind() == types.UntypedNil:
			return (*Value)(nil)
		}
		panic(in.unsupported("zero of basic type " + t.String()))
	case *types.Pointer:
		return (*Value)(nil)
	case *types.Slice:
		return Slice{Nil: true}
	case *types.Map:
		return (*MapObj)(nil)
	case *types.Interface:
		return Iface{}
	case *types.Signature:
		return (*Closure)(nil)
	case *types.Chan:
		return Opaque{"chan"}
	case *types.Struct:
		f := make([]Value, u.NumFields())
		for i := range f {
			f[i] = in.zero(u.Field(i).Type())
		}
		return Struct{F: f}
	case *types.Array:
		n := int(u.Len())
		e := make([]Value, n)
		for i := range e {
			e[i] = in.zero(u.Elem())
		}
		return Array{E: e}
	case *types.Tuple:
		tv := make(Tuple, u.Len())
		for i := range tv {
			tv[i] = in.zero(u.At(i).Type())
		}
		return tv
	}
	panic(in.unsupported("zero of type " + t.String()))
}

// copyVal copies aggregate values so that loads have value semantics.
func copyVal(v Value) Value {
	switch x := v.(type) {
	case Struct:
		f := make([]Value, len(x.F))
		for i := range f {
			f[i] = copyVal(x.F[i])
		}
		return Struct{F: f}
	case Array:
		e := make([]Value, len(x.E))
		for i := range e {
			e[i] = copyVal(x.E[i])
		}
		return Array{E: e}
	case Big:
		return x
	}
	return v
}

// storeInto writes v into the slot *p keeping the addresses of sub-slots stable.
func storeInto(p *Value, v Value) {
	switch x := v.(type) {
	case Struct:
		if cur, ok := (*p).(Struct); ok && len(cur.F) == len(x.F) {
			for i := range x.F {
				storeInto(&cur.F[i], x.F[i])
			}
			return
		}
		*p = copyVal(v)
	case Array:
		if cur, ok := (*p).(Array); ok && len(cur.E) == len(x.E) {
			for i := range x.E {
				storeInto(&cur.E[i], x.E[i])
			}
			return
		}
		*p = copyVal(v)
	default:
		*p = v
	}
}

// bigConst helper
func bigFromU64(v uint64) *big.Int { return new(big.Int).SetUint64(v) }
