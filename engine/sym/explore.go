package sym

import (
	"fmt"
	"go/types"
	"os"
	"runtime/debug"
	"sort"
	"strings"
	"sync"
	"time"

	"golang.org/x/tools/go/ssa"
)

// Config describes one harness exploration.
type Config struct {
	Prog        *ssa.Program
	Harness     string
	Entry       *ssa.Function
	Thorough    bool
	Known       map[string]bool // finding ids whose status is "known" (suppress → KNOWN-FINDING)
	Shared      *Shared
	BytesMax    int
	WantSample  bool
	MaxSteps    int
	SolverName  string
	TimeoutMs   int
	MaxPaths    int
	Workers     int
	ValidateMax int // number of completed paths for which a model is extracted
	Deadline    time.Time
	DumpFile    string
	NoSummaries bool // disable pure-callee summarisation (diagnostics)
}

// PathModel is a completed path with a concrete witness, used for native trace validation.
type PathModel struct {
	Harness   string      `json:"harness"`
	Tape      []TapeEntry `json:"tape"`
	Observes  []ObsValue  `json:"observes"`
	Decisions []int       `json:"path"`
	End       string      `json:"end"`
}

// HarnessReport aggregates all paths of one harness.
type HarnessReport struct {
	Harness      string
	Paths        int
	PathEnds     map[string]int
	Steps        int64
	Violations   []Violation
	KnownHits    []Violation
	Inconclusive []string
	Asserts      int
	AssertsTriv  int
	Queries      int
	SolverTime   time.Duration
	Reached      []string
	NotReached   []string
	Models       []PathModel
	Funcs        []string
	UnknownFeas  int
	Assumptions  []string
	SampleSMT    string
	Wall         time.Duration
	Truncated    bool
	Forks        map[string]int
}

func runPath(cfg *Config, sol *Solver, prefix []int, wantModel bool) (res *PathResult, newWork [][]int, steps int, unknownFz int, funcs map[*ssa.Function]bool) {
	tc := NewTermCtx()
	sol.Begin(tc)
	sol.Errors = nil
	res = &PathResult{Harness: cfg.Harness}
	in := &Interp{
		prog: cfg.Prog, tc: tc, sol: sol,
		globals: map[*ssa.Global]*Value{}, inited: map[*ssa.Package]bool{},
		prefix: prefix, MaxSteps: cfg.MaxSteps, cfg: cfg, res: res,
		funcsSeen: map[*ssa.Function]bool{}, fmtTypes: map[string]types.Type{}, allocBound: -1,
	}
	defer func() {
		steps = in.steps
		newWork = in.newWork
		unknownFz = in.unknownFz
		funcs = in.funcsSeen
		res.Decisions = in.decisions
		res.Steps = in.steps
		if r := recover(); r != nil {
			switch e := r.(type) {
			case *pathEnd:
				res.End = e.Reason
			case *goPanic:
				res.End = "uncaught-panic"
				in.reportUncaughtPanic(e)
			case *Inconclusive:
				res.End = "inconclusive"
				res.Inconclusive = append(res.Inconclusive, e.Msg)
			default:
				res.End = "engine-error"
				st := strings.Split(string(debug.Stack()), "\n")
				if len(st) > 24 {
					st = st[:24]
				}
				res.Inconclusive = append(res.Inconclusive, fmt.Sprintf("engine error: %v at %s\n%s", r, in.posString(), strings.Join(st, "\n")))
			}
		}
		if len(sol.Errors) > 0 {
			res.Inconclusive = append(res.Inconclusive, fmt.Sprintf("solver errors: %v", sol.Errors))
		}
	}()
	in.callFn(cfg.Entry, nil, nil)
	res.End = "done"
	in.finishPath(wantModel)
	return
}

// Explore runs the harness over all paths.
func Explore(cfg *Config) *HarnessReport {
	start := time.Now()
	rep := &HarnessReport{Harness: cfg.Harness, PathEnds: map[string]int{}}
	if cfg.Shared == nil {
		cfg.Shared = &Shared{Reached: map[string]bool{}, Declared: map[string]bool{}}
	}
	if cfg.MaxSteps == 0 {
		cfg.MaxSteps = 2_000_000
	}
	if cfg.Workers == 0 {
		cfg.Workers = 16
	}
	if cfg.TimeoutMs == 0 {
		cfg.TimeoutMs = 60000
	}
	if cfg.MaxPaths == 0 {
		cfg.MaxPaths = 200000
	}

	var mu sync.Mutex
	cond := sync.NewCond(&mu)
	work := [][]int{{}}
	busy := 0
	funcs := map[*ssa.Function]bool{}
	seenViol := map[string]int{}
	validated := 0

	var wg sync.WaitGroup
	for w := 0; w < cfg.Workers; w++ {
		wg.Add(1)
		go func() {
			defer wg.Done()
			sol, err := StartSolver(cfg.SolverName, cfg.TimeoutMs)
			if err != nil {
				mu.Lock()
				rep.Inconclusive = append(rep.Inconclusive, "cannot start solver: "+err.Error())
				mu.Unlock()
				return
			}
			sol.SoftMs = 2500
			defer sol.Close()
			if cfg.DumpFile != "" {
				if f, err := os.Create(cfg.DumpFile); err == nil {
					sol.Log = f
					defer f.Close()
				}
			}
			for {
				mu.Lock()
				for len(work) == 0 && busy > 0 {
					cond.Wait()
				}
				if len(work) == 0 && busy == 0 {
					mu.Unlock()
					cond.Broadcast()
					return
				}
				if rep.Paths >= cfg.MaxPaths || (!cfg.Deadline.IsZero() && time.Now().After(cfg.Deadline)) {
					rep.Truncated = true
					work = nil
					mu.Unlock()
					cond.Broadcast()
					if busy == 0 {
						return
					}
					mu.Lock()
					for busy > 0 {
						cond.Wait()
					}
					mu.Unlock()
					return
				}
				prefix := work[len(work)-1]
				work = work[:len(work)-1]
				busy++
				wantModel := validated < cfg.ValidateMax
				mu.Unlock()

				q0, t0 := sol.Queries, sol.Time
				res, nw, steps, ufz, fs := runPath(cfg, sol, prefix, wantModel)
				if sol.dead {
					sol.Close()
					sol, _ = StartSolver(cfg.SolverName, cfg.TimeoutMs)
				}

				mu.Lock()
				busy--
				rep.Paths++
				rep.PathEnds[res.End]++
				rep.Steps += int64(steps)
				rep.Queries += sol.Queries - q0
				rep.SolverTime += sol.Time - t0
				rep.Asserts += res.Asserts
				rep.AssertsTriv += res.AssertsTriv
				rep.UnknownFeas += ufz
				if rep.SampleSMT == "" {
					rep.SampleSMT = res.SampleSMT
				}
				for f := range fs {
					funcs[f] = true
				}
				for _, v := range res.Violations {
					k := v.ID + "|" + v.Pos + "|" + v.Kind + "|" + v.Msg
					seenViol[k]++
					if seenViol[k] <= 3 {
						v.Harness = cfg.Harness
						rep.Violations = append(rep.Violations, v)
					}
				}
				for _, v := range res.KnownHits {
					k := "K|" + v.ID + "|" + v.Pos + "|" + v.Finding
					seenViol[k]++
					if seenViol[k] <= 2 {
						v.Harness = cfg.Harness
						rep.KnownHits = append(rep.KnownHits, v)
					}
				}
				for _, msg := range res.Inconclusive {
					k := "I|" + msg
					seenViol[k]++
					if seenViol[k] == 1 && len(rep.Inconclusive) < 20 {
						rep.Inconclusive = append(rep.Inconclusive, msg)
					}
				}
				if res.HasModel {
					validated++
					rep.Models = append(rep.Models, PathModel{Harness: cfg.Harness, Tape: res.Tape, Observes: res.Observes, Decisions: res.Decisions, End: res.End})
				}
				if !rep.Truncated {
					work = append(work, nw...)
				}
				mu.Unlock()
				cond.Broadcast()
			}
		}()
	}
	wg.Wait()

	cfg.Shared.mu.Lock()
	for id := range cfg.Shared.Declared {
		if cfg.Shared.Reached[id] {
			rep.Reached = append(rep.Reached, id)
		} else {
			rep.NotReached = append(rep.NotReached, id)
		}
	}
	rep.Forks = cfg.Shared.Forks
	for a := range cfg.Shared.Assumptions {
		rep.Assumptions = append(rep.Assumptions, a)
	}
	cfg.Shared.mu.Unlock()
	sort.Strings(rep.Reached)
	sort.Strings(rep.NotReached)
	sort.Strings(rep.Assumptions)
	in := &Interp{prog: cfg.Prog, funcsSeen: funcs}
	rep.Funcs = in.funcsList()
	rep.Wall = time.Since(start)
	return rep
}
