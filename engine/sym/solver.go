package sym

import (
	"bufio"
	"fmt"
	"io"
	"math/big"
	"os"
	"os/exec"
	"strings"
	"time"
)

// Result of a check-sat.
type Result int

const (
	Unsat Result = iota
	Sat
	Unknown
)

func (r Result) String() string { return [...]string{"unsat", "sat", "unknown"}[r] }

// Solver wraps one persistent SMT solver process speaking SMT-LIB2 on stdin/stdout.
type Solver struct {
	Name         string
	cmd          *exec.Cmd
	in           io.WriteCloser
	out          *bufio.Reader
	emitted      map[*Term]bool
	tablesOut    int
	tc           *TermCtx
	Queries      int
	Time         time.Duration
	Errors       []string
	TimeoutMs    int
	Log          io.Writer // optional transcript
	buf          strings.Builder
	dead         bool
	asserted     []*Term
	fresh        *Solver // fallback: non-incremental re-check of queries the incremental core gives up on
	SoftMs       int
	Fallbacks    int
	isFresh      bool
	abstract     bool // emit multiplications/divisions as uninterpreted constants (sound for unsat)
	cvc          *Solver
	alt          *Solver // cvc5 --solve-bv-as-int=sum
	AltHits      int
	struggled    bool // the incremental core already gave up once on this path
	AbstractHits int
}

// SolverCommand returns argv for a named back end.
func SolverCommand(name string) []string {
	switch name {
	case "z3-new":
		return []string{"z3-new", "-in"}
	case "cvc5":
		return []string{"cvc5", "--incremental", "--lang=smt2", "--produce-models", "--tlimit-per=60000"}
	case "cvc5-int":
		// bit-vectors solved as integers modulo 2^k: decides multiply-by-constant and
		// borrow/carry chains that stall the bit-blasting back ends
		return []string{"cvc5", "--incremental", "--lang=smt2", "--produce-models", "--tlimit-per=20000", "--solve-bv-as-int=sum"}
	}
	return []string{"z3", "-in"}
}

func StartSolver(name string, timeoutMs int) (*Solver, error) {
	argv := SolverCommand(name)
	cmd := exec.Command(argv[0], argv[1:]...)
	in, err := cmd.StdinPipe()
	if err != nil {
		return nil, err
	}
	outp, err := cmd.StdoutPipe()
	if err != nil {
		return nil, err
	}
	cmd.Stderr = nil
	if err := cmd.Start(); err != nil {
		return nil, err
	}
	s := &Solver{Name: name, cmd: cmd, in: in, out: bufio.NewReaderSize(outp, 1<<16), TimeoutMs: timeoutMs}
	return s, nil
}

func (s *Solver) Close() {
	if s.fresh != nil {
		s.fresh.Close()
	}
	if s.cvc != nil {
		s.cvc.Close()
	}
	if s.alt != nil {
		s.alt.Close()
	}
	if s.cmd != nil && !s.dead {
		s.dead = true
		io.WriteString(s.in, "(exit)\n")
		s.in.Close()
		done := make(chan struct{})
		go func() { s.cmd.Wait(); close(done) }()
		select {
		case <-done:
		case <-time.After(2 * time.Second):
			s.cmd.Process.Kill()
		}
	}
}

func (s *Solver) send(str string) {
	s.buf.WriteString(str)
	s.buf.WriteByte('\n')
}

func (s *Solver) flush() {
	if s.buf.Len() == 0 {
		return
	}
	if s.Log != nil {
		io.WriteString(s.Log, s.buf.String())
	}
	io.WriteString(s.in, s.buf.String())
	s.buf.Reset()
}

// Begin resets the solver for a new path over term context tc.
func (s *Solver) Begin(tc *TermCtx) {
	s.tc = tc
	s.emitted = map[*Term]bool{}
	s.tablesOut = 0
	s.asserted = s.asserted[:0]
	s.struggled = false
	s.send("(reset)")
	if strings.HasPrefix(s.Name, "cvc5") {
		s.send("(set-logic ALL)")
	} else {
		to := s.TimeoutMs
		if !s.isFresh && s.SoftMs > 0 && s.SoftMs < to {
			to = s.SoftMs
		}
		s.send(fmt.Sprintf("(set-option :timeout %d)", to))
	}
}

// tryAlt asks cvc5 in bv-as-int mode; ok is false when it has no verdict either.
func (s *Solver) tryAlt(extra []*Term, want []*Term) (Result, []ModelValue, bool) {
	if s.alt == nil || s.alt.dead {
		a, err := StartSolver("cvc5-int", 20000)
		if err != nil {
			return Unknown, nil, false
		}
		a.isFresh = true
		s.alt = a
	}
	a := s.alt
	a.Begin(s.tc)
	a.Errors = nil
	for _, t := range s.asserted {
		a.Assert(t)
	}
	r, v := a.CheckModel(extra, want)
	if len(a.Errors) > 0 || r == Unknown {
		if a.dead {
			s.alt = nil
		}
		return Unknown, nil, false
	}
	s.AltHits++
	return r, v, true
}

var hardOp = map[string]bool{"bvmul": true, "bvudiv": true, "bvurem": true, "bvsdiv": true, "bvsrem": true, "div": true, "mod": true}

// recheck decides pc ∧ extra from scratch in a second solver process (no incremental state).
func (s *Solver) recheck(extra []*Term, want []*Term) (Result, []ModelValue) {
	if s.isFresh {
		return Unknown, nil
	}
	if s.fresh == nil || s.fresh.dead {
		f, err := StartSolver(s.Name, s.TimeoutMs)
		if err != nil {
			return Unknown, nil
		}
		f.isFresh = true
		s.fresh = f
	}
	s.Fallbacks++
	s.struggled = true
	if r, v, ok := s.tryAlt(extra, want); ok {
		return r, v
	}
	f := s.fresh
	// next attempt: arithmetic kernels abstracted to uninterpreted constants; unsat carries over
	f.abstract = true
	f.TimeoutMs = 10000
	f.Begin(s.tc)
	f.Errors = nil
	for _, a := range s.asserted {
		f.Assert(a)
	}
	if r0, _ := f.CheckModel(extra, nil); r0 == Unsat {
		s.AbstractHits++
		return Unsat, nil
	}
	f.abstract = false
	f.TimeoutMs = s.TimeoutMs
	var logb strings.Builder
	if os.Getenv("GOSMT_UNKNOWN_DIR") != "" {
		f.Log = &logb
	}
	f.Begin(s.tc)
	f.Errors = nil
	for _, a := range s.asserted {
		f.Assert(a)
	}
	r, v := f.CheckModel(extra, want)
	if f.Log != nil {
		os.WriteFile(fmt.Sprintf("%s/%s-%d-%d.smt2", os.Getenv("GOSMT_UNKNOWN_DIR"), r, os.Getpid(), s.Fallbacks), []byte(logb.String()), 0o644)
	}
	f.Log = nil
	if r == Unknown && s.Name != "cvc5" {
		if s.cvc == nil || s.cvc.dead {
			c, err := StartSolver("cvc5", s.TimeoutMs)
			if err == nil {
				c.isFresh = true
				s.cvc = c
			}
		}
		if s.cvc != nil {
			c := s.cvc
			c.Begin(s.tc)
			c.Errors = nil
			for _, a := range s.asserted {
				c.Assert(a)
			}
			r, v = c.CheckModel(extra, want)
			if len(c.Errors) > 0 {
				r = Unknown
			}
		}
	}
	s.Errors = append(s.Errors, f.Errors...)
	return r, v
}

func (s *Solver) emitTables() {
	for s.tablesOut < len(s.tc.tables) {
		id := s.tablesOut
		tbl := s.tc.tables[id]
		var sb strings.Builder
		fmt.Fprintf(&sb, "(define-fun tbl%d ((x (_ BitVec 8))) (_ BitVec 8) ", id)
		n := len(tbl)
		if n > 256 {
			n = 256
		}
		closers := 0
		// group equal consecutive values would be nicer; a flat ite chain is fine for <=256
		for i := 0; i < n; i++ {
			fmt.Fprintf(&sb, "(ite (= x %s) %s ", bvLit(8, uint64(i)), bvLit(8, uint64(tbl[i])))
			closers++
		}
		sb.WriteString("#x00")
		sb.WriteString(strings.Repeat(")", closers))
		sb.WriteString(")")
		s.send(sb.String())
		s.tablesOut++
	}
}

// ref returns the text by which t can be referenced, emitting definitions as needed.
func (s *Solver) ref(t *Term) string {
	switch t.Op {
	case "const":
		switch t.K {
		case KBool:
			if t.CU != 0 {
				return "true"
			}
			return "false"
		case KInt:
			return intLit(t.CI)
		}
		return bvLit(t.W, t.CU)
	case "var":
		if !s.emitted[t] {
			s.emitted[t] = true
			s.send(fmt.Sprintf("(declare-const %s %s)", t.Name, sortOf(t)))
		}
		return t.Name
	}
	name := fmt.Sprintf("t%d", t.id)
	if s.emitted[t] {
		return name
	}
	// iterative post-order to avoid deep recursion on long chains
	type fr struct {
		t *Term
		i int
	}
	stack := []fr{{t, 0}}
	for len(stack) > 0 {
		top := &stack[len(stack)-1]
		if top.i < len(top.t.Args) {
			a := top.t.Args[top.i]
			top.i++
			if a.Op != "const" && a.Op != "var" && !s.emitted[a] {
				stack = append(stack, fr{a, 0})
			}
			continue
		}
		cur := top.t
		stack = stack[:len(stack)-1]
		if s.emitted[cur] {
			continue
		}
		if cur.Op == "table" {
			s.emitTables()
		}
		if s.abstract && hardOp[cur.Op] {
			s.send(fmt.Sprintf("(declare-const t%d %s)", cur.id, sortOf(cur)))
			s.emitted[cur] = true
			continue
		}
		var sb strings.Builder
		fmt.Fprintf(&sb, "(define-fun t%d () %s (%s", cur.id, sortOf(cur), head(cur))
		for _, a := range cur.Args {
			sb.WriteByte(' ')
			sb.WriteString(s.ref(a))
		}
		sb.WriteString("))")
		s.send(sb.String())
		s.emitted[cur] = true
	}
	return name
}

// Assert adds t permanently (for this path).
func (s *Solver) Assert(t *Term) {
	if t.IsConst() && t.CU != 0 {
		return
	}
	r := s.ref(t)
	s.send("(assert " + r + ")")
	s.asserted = append(s.asserted, t)
}

// readLine reads one line of solver output. A solver that does not answer within three times
// its own time limit plus 30 s (cvc5's --tlimit-per does not interrupt every preprocessing pass) is
// killed: the read then fails, the caller marks the process dead and the query is Unknown -
// a check never hangs on a solver.
func (s *Solver) readLine() (string, error) {
	limit := 3*time.Duration(s.TimeoutMs)*time.Millisecond + 30*time.Second
	t := time.AfterFunc(limit, func() {
		if s.cmd != nil && s.cmd.Process != nil {
			s.cmd.Process.Kill()
		}
	})
	line, err := s.out.ReadString('\n')
	t.Stop()
	return strings.TrimSpace(line), err
}

// Check decides satisfiability of the asserted path condition plus extra.
func (s *Solver) Check(extra ...*Term) Result {
	if s.dead {
		return Unknown
	}
	refs := make([]string, 0, len(extra))
	for _, e := range extra {
		if e.IsConst() {
			if e.CU == 0 {
				return Unsat
			}
			continue
		}
		refs = append(refs, s.ref(e))
	}
	if s.struggled && !s.isFresh && s.tc.HasHard {
		start := time.Now()
		if r, _, ok := s.tryAlt(extra, nil); ok {
			s.Time += time.Since(start)
			s.Queries++
			return r
		}
	}
	s.send("(push 1)")
	for _, r := range refs {
		s.send("(assert " + r + ")")
	}
	s.send("(check-sat)")
	s.flush()
	start := time.Now()
	res := s.readResult()
	s.send("(pop 1)")
	if res == Unknown && !s.isFresh {
		res, _ = s.recheck(extra, nil)
	}
	s.Time += time.Since(start)
	s.Queries++
	return res
}

func (s *Solver) readResult() Result {
	for {
		line, err := s.readLine()
		if err != nil {
			s.Errors = append(s.Errors, "solver died: "+err.Error())
			s.dead = true
			return Unknown
		}
		switch {
		case line == "sat":
			return Sat
		case line == "unsat":
			return Unsat
		case line == "unknown" || line == "timeout":
			return Unknown
		case strings.HasPrefix(line, "(error"):
			s.Errors = append(s.Errors, line)
			// keep reading: the check-sat answer still follows, but the verdict is tainted
			for {
				l2, err := s.readLine()
				if err != nil {
					s.dead = true
					return Unknown
				}
				if l2 == "sat" || l2 == "unsat" || l2 == "unknown" {
					return Unknown
				}
				if strings.HasPrefix(l2, "(error") {
					s.Errors = append(s.Errors, l2)
				}
			}
		case line == "":
			continue
		default:
			// unexpected chatter
			s.Errors = append(s.Errors, "unexpected solver output: "+line)
		}
	}
}

// ModelValue is a value read back from a model.
type ModelValue struct {
	K Kind
	W int
	U uint64
	I *big.Int
}

// CheckAssert is CheckModel for queries expected to be unsat: when the path contains
// multiplications it first tries the abstraction (kernels as uninterpreted constants), whose
// unsat verdict carries over, before paying for bit-blasting.
func (s *Solver) CheckAssert(extra []*Term, want []*Term) (Result, []ModelValue) {
	if s.tc != nil && s.tc.HasHard && !s.isFresh {
		start := time.Now()
		if r, v, ok := s.tryAlt(extra, want); ok {
			s.Time += time.Since(start)
			s.Queries++
			return r, v
		}
		if s.abstractUnsat(extra) {
			s.Queries++
			return Unsat, nil
		}
	}
	return s.CheckModel(extra, want)
}

func (s *Solver) abstractUnsat(extra []*Term) bool {
	if s.fresh == nil || s.fresh.dead {
		f, err := StartSolver(s.Name, s.TimeoutMs)
		if err != nil {
			return false
		}
		f.isFresh = true
		s.fresh = f
	}
	f := s.fresh
	f.abstract = true
	f.TimeoutMs = 5000
	start := time.Now()
	f.Begin(s.tc)
	f.Errors = nil
	for _, a := range s.asserted {
		f.Assert(a)
	}
	r, _ := f.CheckModel(extra, nil)
	f.abstract = false
	f.TimeoutMs = s.TimeoutMs
	s.Time += time.Since(start)
	if r == Unsat && len(f.Errors) == 0 {
		s.AbstractHits++
		return true
	}
	return false
}

// CheckModel runs check-sat with extra and, if sat, evaluates the given terms.
func (s *Solver) CheckModel(extra []*Term, want []*Term) (Result, []ModelValue) {
	if s.dead {
		return Unknown, nil
	}
	refs := make([]string, 0, len(extra))
	for _, e := range extra {
		if e.IsConst() {
			if e.CU == 0 {
				return Unsat, nil
			}
			continue
		}
		refs = append(refs, s.ref(e))
	}
	wrefs := make([]string, len(want))
	for i, w := range want {
		wrefs[i] = s.ref(w)
	}
	if s.struggled && !s.isFresh && s.tc.HasHard {
		start := time.Now()
		if r, v, ok := s.tryAlt(extra, want); ok {
			s.Time += time.Since(start)
			s.Queries++
			return r, v
		}
	}
	s.send("(push 1)")
	for _, r := range refs {
		s.send("(assert " + r + ")")
	}
	s.send("(check-sat)")
	s.flush()
	start := time.Now()
	res := s.readResult()
	if res == Unknown && !s.isFresh {
		s.send("(pop 1)")
		res, vals := s.recheck(extra, want)
		s.Time += time.Since(start)
		s.Queries++
		return res, vals
	}
	s.Time += time.Since(start)
	s.Queries++
	var vals []ModelValue
	if res == Sat && len(want) > 0 {
		vals = make([]ModelValue, len(want))
		// evaluate in chunks to keep lines manageable
		const chunk = 64
		for lo := 0; lo < len(want); lo += chunk {
			hi := lo + chunk
			if hi > len(want) {
				hi = len(want)
			}
			s.send("(get-value (" + strings.Join(wrefs[lo:hi], " ") + "))")
			s.flush()
			txt, err := s.readSexp()
			if err != nil {
				s.Errors = append(s.Errors, "get-value: "+err.Error())
				res = Unknown
				break
			}
			vs, err := parseValues(txt, want[lo:hi])
			if err != nil {
				s.Errors = append(s.Errors, "get-value parse: "+err.Error()+" in "+txt)
				res = Unknown
				break
			}
			copy(vals[lo:hi], vs)
		}
	}
	s.send("(pop 1)")
	return res, vals
}

func (s *Solver) readSexp() (string, error) {
	var sb strings.Builder
	depth := 0
	started := false
	for {
		b, err := s.out.ReadByte()
		if err != nil {
			s.dead = true
			return "", err
		}
		if !started {
			if b == '(' {
				started = true
			} else if b == ' ' || b == '\n' || b == '\r' || b == '\t' {
				continue
			} else {
				// atom line
				rest, _ := s.out.ReadString('\n')
				return string(b) + strings.TrimSpace(rest), nil
			}
		}
		sb.WriteByte(b)
		if b == '(' {
			depth++
		} else if b == ')' {
			depth--
			if depth == 0 {
				// consume to end of line
				return sb.String(), nil
			}
		}
	}
}

// parseValues parses "((t1 v1) (t2 v2) ...)".
func parseValues(txt string, want []*Term) ([]ModelValue, error) {
	if strings.HasPrefix(txt, "(error") {
		return nil, fmt.Errorf("%s", txt)
	}
	toks := tokenizeSexp(txt)
	pos := 0
	expect := func(s string) error {
		if pos >= len(toks) || toks[pos] != s {
			return fmt.Errorf("expected %q at %d", s, pos)
		}
		pos++
		return nil
	}
	if err := expect("("); err != nil {
		return nil, err
	}
	out := make([]ModelValue, 0, len(want))
	for i := 0; i < len(want); i++ {
		if err := expect("("); err != nil {
			return nil, err
		}
		// skip the term reference (atom or s-expr)
		if toks[pos] == "(" {
			d := 0
			for {
				if toks[pos] == "(" {
					d++
				} else if toks[pos] == ")" {
					d--
				}
				pos++
				if d == 0 {
					break
				}
			}
		} else {
			pos++
		}
		// value
		var mv ModelValue
		mv.K = want[i].K
		mv.W = want[i].W
		tok := toks[pos]
		switch {
		case tok == "true":
			mv.U = 1
			pos++
		case tok == "false":
			mv.U = 0
			pos++
		case strings.HasPrefix(tok, "#x"):
			v := new(big.Int)
			v.SetString(tok[2:], 16)
			mv.U = v.Uint64()
			mv.I = v
			pos++
		case strings.HasPrefix(tok, "#b"):
			v := new(big.Int)
			v.SetString(tok[2:], 2)
			mv.U = v.Uint64()
			mv.I = v
			pos++
		case tok == "(":
			// (- N) or (_ bvN w)
			pos++
			if toks[pos] == "-" {
				pos++
				v := new(big.Int)
				v.SetString(toks[pos], 10)
				mv.I = v.Neg(v)
				pos++
			} else if toks[pos] == "_" {
				pos++
				v := new(big.Int)
				v.SetString(strings.TrimPrefix(toks[pos], "bv"), 10)
				mv.U = v.Uint64()
				mv.I = v
				pos += 2
			} else {
				return nil, fmt.Errorf("unexpected value form %q", toks[pos])
			}
			if err := expect(")"); err != nil {
				return nil, err
			}
		default:
			v := new(big.Int)
			if _, ok := v.SetString(tok, 10); !ok {
				return nil, fmt.Errorf("unexpected value token %q", tok)
			}
			mv.I = v
			pos++
		}
		if err := expect(")"); err != nil {
			return nil, err
		}
		out = append(out, mv)
	}
	return out, nil
}

func tokenizeSexp(s string) []string {
	var toks []string
	i := 0
	for i < len(s) {
		c := s[i]
		switch {
		case c == '(' || c == ')':
			toks = append(toks, string(c))
			i++
		case c == ' ' || c == '\n' || c == '\t' || c == '\r':
			i++
		default:
			j := i
			for j < len(s) && s[j] != '(' && s[j] != ')' && s[j] != ' ' && s[j] != '\n' && s[j] != '\t' && s[j] != '\r' {
				j++
			}
			toks = append(toks, s[i:j])
			i = j
		}
	}
	return toks
}
