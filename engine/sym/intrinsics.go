package sym

import (
	"fmt"
	"go/types"
	"math/big"
	"strconv"
	"strings"

	"golang.org/x/tools/go/ssa"
)

type intrinsic func(in *Interp, fn *ssa.Function, args []Value) Value

var intrinsics map[string]intrinsic

func init() {
	intrinsics = map[string]intrinsic{
		// ---- math/big (API-level model over SMT Int) ----
		"math/big.NewInt":           bigNewInt,
		"(*math/big.Int).SetBytes":  bigSetBytes,
		"(*math/big.Int).Bytes":     bigBytes,
		"(*math/big.Int).Cmp":       bigCmp,
		"(*math/big.Int).CmpAbs":    bigCmpAbs,
		"(*math/big.Int).Add":       func(in *Interp, fn *ssa.Function, a []Value) Value { return bigArith(in, "+", a) },
		"(*math/big.Int).Sub":       func(in *Interp, fn *ssa.Function, a []Value) Value { return bigArith(in, "-", a) },
		"(*math/big.Int).Mul":       func(in *Interp, fn *ssa.Function, a []Value) Value { return bigArith(in, "*", a) },
		"(*math/big.Int).Neg":       bigNeg,
		"(*math/big.Int).Abs":       bigAbs,
		"(*math/big.Int).Set":       bigSet,
		"(*math/big.Int).SetUint64": bigSetUint64,
		"(*math/big.Int).SetInt64":  bigSetInt64,
		"(*math/big.Int).Uint64":    bigUint64,
		"(*math/big.Int).Int64":     bigInt64,
		"(*math/big.Int).Sign":      bigSign,
		"(*math/big.Int).IsUint64":  bigIsUint64,
		"(*math/big.Int).String":    func(in *Interp, fn *ssa.Function, a []Value) Value { return strFromGo("<big>") },
		"(*math/big.Int).BitLen":    bigBitLen,
		"(*math/big.Int).FillBytes": bigFillBytes,

		// ---- errors / fmt ----
		"errors.Is":   errorsIs,
		"fmt.Errorf":  fmtErrorf,
		"fmt.Sprintf": fmtSprintf,
		"fmt.Sprint":  func(in *Interp, fn *ssa.Function, a []Value) Value { return strFromGo("<sprint>") },
		"fmt.Println": func(in *Interp, fn *ssa.Function, a []Value) Value { return Tuple{BV{W: 64}, Iface{}} },
		"fmt.Printf":  func(in *Interp, fn *ssa.Function, a []Value) Value { return Tuple{BV{W: 64}, Iface{}} },

		// ---- asm-backed leaves ----
		"internal/bytealg.IndexByteString": func(in *Interp, fn *ssa.Function, a []Value) Value {
			return in.indexByte(a[0].(Str).B, a[1].(BV))
		},
		"internal/bytealg.IndexByte": func(in *Interp, fn *ssa.Function, a []Value) Value {
			return in.indexByte(sliceBytes(a[0].(Slice)), a[1].(BV))
		},
		"internal/bytealg.CountString": func(in *Interp, fn *ssa.Function, a []Value) Value {
			return in.countByte(a[0].(Str).B, a[1].(BV))
		},
		"internal/bytealg.Count": func(in *Interp, fn *ssa.Function, a []Value) Value {
			return in.countByte(sliceBytes(a[0].(Slice)), a[1].(BV))
		},
		"internal/bytealg.Equal": func(in *Interp, fn *ssa.Function, a []Value) Value {
			return in.strEq(Str{B: sliceBytes(a[0].(Slice))}, Str{B: sliceBytes(a[1].(Slice))})
		},
		"internal/bytealg.MakeNoZero": func(in *Interp, fn *ssa.Function, a []Value) Value {
			n := in.resolveBV(a[0].(BV))
			if n.T != nil || n.C > 1<<20 {
				panic(in.unsupported("MakeNoZero with symbolic or huge length"))
			}
			arr := make([]Value, n.C)
			for i := range arr {
				arr[i] = BV{W: 8}
			}
			return Slice{A: arr}
		},
		"strings.Join": stringsJoin,
		"internal/bytealg.Compare": func(in *Interp, fn *ssa.Function, a []Value) Value {
			return in.bytesCompare(Str{B: sliceBytes(a[0].(Slice))}, Str{B: sliceBytes(a[1].(Slice))})
		},
		"internal/bytealg.CompareString": func(in *Interp, fn *ssa.Function, a []Value) Value {
			return in.bytesCompare(a[0].(Str), a[1].(Str))
		},
		"sort.Slice":       sortSlice,
		"sort.SliceStable": sortSlice,
		// strings.Builder: everything but the two unsafe leaves is interpreted from source
		"(*strings.Builder).copyCheck": func(in *Interp, fn *ssa.Function, a []Value) Value { return nil },
		"(*strings.Builder).String": func(in *Interp, fn *ssa.Function, a []Value) Value {
			p, ok := a[0].(*Value)
			if !ok || p == nil {
				in.goPanic("nil pointer dereference (strings.Builder)")
			}
			st, ok := (*p).(Struct)
			if !ok || len(st.F) < 2 {
				panic(in.unsupported("strings.Builder layout"))
			}
			sl, ok := st.F[1].(Slice)
			if !ok {
				return Str{}
			}
			return Str{B: append([]BV{}, sliceBytes(sl)...)}
		},
		"math.Abs": func(in *Interp, fn *ssa.Function, a []Value) Value {
			f := a[0].(Float).F
			if f < 0 {
				f = -f
			}
			return Float{F: f}
		},

		// ---- sync ----
		"(*sync.RWMutex).Lock":    func(in *Interp, fn *ssa.Function, a []Value) Value { in.lockOp(a[0].(*Value), "Lock"); return nil },
		"(*sync.RWMutex).Unlock":  func(in *Interp, fn *ssa.Function, a []Value) Value { in.lockOp(a[0].(*Value), "Unlock"); return nil },
		"(*sync.RWMutex).RLock":   func(in *Interp, fn *ssa.Function, a []Value) Value { in.lockOp(a[0].(*Value), "RLock"); return nil },
		"(*sync.RWMutex).RUnlock": func(in *Interp, fn *ssa.Function, a []Value) Value { in.lockOp(a[0].(*Value), "RUnlock"); return nil },
		"(*sync.Mutex).Lock":      func(in *Interp, fn *ssa.Function, a []Value) Value { in.lockOp(a[0].(*Value), "Lock"); return nil },
		"(*sync.Mutex).Unlock":    func(in *Interp, fn *ssa.Function, a []Value) Value { in.lockOp(a[0].(*Value), "Unlock"); return nil },

		// ---- sync/atomic ----
		"sync/atomic.LoadUint32":           atomicLoad,
		"sync/atomic.LoadUint64":           atomicLoad,
		"sync/atomic.LoadInt32":            atomicLoad,
		"sync/atomic.LoadInt64":            atomicLoad,
		"sync/atomic.StoreUint32":          atomicStore,
		"sync/atomic.StoreUint64":          atomicStore,
		"sync/atomic.StoreInt32":           atomicStore,
		"sync/atomic.StoreInt64":           atomicStore,
		"sync/atomic.SwapUint32":           atomicSwap,
		"sync/atomic.SwapUint64":           atomicSwap,
		"sync/atomic.SwapInt32":            atomicSwap,
		"sync/atomic.SwapInt64":            atomicSwap,
		"sync/atomic.AddUint32":            atomicAdd,
		"sync/atomic.AddUint64":            atomicAdd,
		"sync/atomic.AddInt32":             atomicAdd,
		"sync/atomic.AddInt64":             atomicAdd,
		"sync/atomic.CompareAndSwapUint32": atomicCAS,
		"sync/atomic.CompareAndSwapUint64": atomicCAS,
		"sync/atomic.CompareAndSwapInt32":  atomicCAS,
		"sync/atomic.CompareAndSwapInt64":  atomicCAS,
		"(*sync/atomic.Value).Load":        atomicValueLoad,
		"(*sync/atomic.Value).Store":       atomicValueStore,
	}
}

func sliceBytes(s Slice) []BV {
	b := make([]BV, len(s.A))
	for i := range s.A {
		b[i] = s.A[i].(BV)
	}
	return b
}

// ---------- math/big ----------

func (in *Interp) newBig(b Big) *Value {
	slot := new(Value)
	*slot = b
	return slot
}

// signedInt converts a signed BV to an Int term.
func (in *Interp) signedInt(x BV) *Term {
	x = in.resolveBV(x)
	if x.T == nil {
		return in.tc.IntConst64(sext(x.C, x.W))
	}
	n := in.tc.BV2Nat(x.T)
	neg := in.tc.BVCmp("bvslt", x.T, in.tc.BVConst(x.W, 0))
	two := new(big.Int).Lsh(big.NewInt(1), uint(x.W))
	return in.tc.Ite(neg, in.tc.IntBin("-", n, in.tc.IntConst(two)), n)
}

// signedMagBytes is the eight big-endian bytes of |x| for a signed machine word x (nil when x is
// concrete): with them Bytes(), Uint64() and BitLen() of a word-derived big.Int stay in the
// bit-vector theory instead of going through Int division.
func (in *Interp) signedMagBytes(x BV) []BV {
	x = in.resolveBV(x)
	if x.T == nil {
		return nil
	}
	t := x.T
	if x.W < 64 {
		t = in.tc.SExt(t, 64)
	}
	neg := in.tc.BVCmp("bvslt", t, in.tc.BVConst(64, 0))
	mag := in.tc.Ite(neg, in.tc.BVNeg(t), t)
	bs := make([]BV, 8)
	for i := 0; i < 8; i++ {
		bs[i] = in.mkBV(in.tc.Extract(63-8*i, 56-8*i, mag))
	}
	return bs
}

func bigNewInt(in *Interp, fn *ssa.Function, a []Value) Value {
	return in.newBig(Big{T: in.signedInt(a[0].(BV)), FromBytes: in.signedMagBytes(a[0].(BV))})
}

func (in *Interp) bigRecv(v Value) *Value {
	p, ok := v.(*Value)
	if !ok || p == nil {
		in.goPanic("nil pointer dereference (*big.Int receiver)")
	}
	return p
}

func (in *Interp) bytesToInt(bs []BV) *Term {
	n := len(bs)
	allConc := true
	for _, b := range bs {
		if in.resolveBV(b).T != nil {
			allConc = false
			break
		}
	}
	if allConc {
		buf := make([]byte, n)
		for i, b := range bs {
			buf[i] = byte(in.resolveBV(b).C)
		}
		return in.tc.IntConst(new(big.Int).SetBytes(buf))
	}
	var parts []*Term
	for i, b := range bs {
		b = in.resolveBV(b)
		w := new(big.Int).Lsh(big.NewInt(1), uint(8*(n-1-i)))
		parts = append(parts, in.tc.IntBin("*", in.tc.BV2Nat(in.bvTerm(b)), in.tc.IntConst(w)))
	}
	return in.tc.IntSum(parts)
}

func bigSetBytes(in *Interp, fn *ssa.Function, a []Value) Value {
	z := in.bigRecv(a[0])
	bs := sliceBytes(a[1].(Slice))
	in.onWrite(z)
	*z = Big{T: in.bytesToInt(bs), FromBytes: append([]BV{}, bs...)}
	return z
}

// bigBytes returns the big-endian magnitude without leading zeros (forks on the length).
func bigBytes(in *Interp, fn *ssa.Function, a []Value) Value {
	x := in.bigOf(a[0])
	mk := func(bs []BV) Value {
		arr := make([]Value, len(bs))
		for i := range bs {
			arr[i] = bs[i]
		}
		return Slice{A: arr}
	}
	if x.T.IsConst() {
		buf := new(big.Int).Abs(x.T.CI).Bytes()
		bs := make([]BV, len(buf))
		for i := range buf {
			bs[i] = concBV(8, uint64(buf[i]))
		}
		return mk(bs)
	}
	if x.FromBytes != nil {
		bs := x.FromBytes
		n := len(bs)
		return &LazySlice{thunk: func() Slice {
			// alternative k: exactly k leading zero bytes (k = n: all zero)
			k := in.decide(n+1, func(k int) *Term {
				var cs []*Term
				for i := 0; i < k && i < n; i++ {
					cs = append(cs, in.boolTerm(in.bvEq(bs[i], BV{W: 8})))
				}
				if k < n {
					cs = append(cs, in.tc.Not(in.boolTerm(in.bvEq(bs[k], BV{W: 8}))))
				}
				return in.tc.And(cs...)
			})
			return mk(append([]BV{}, bs[k:]...)).(Slice)
		}}
	}
	// general case: fork on the byte length up to the configured bound
	lmax := in.cfg.BytesMax
	if lmax <= 0 {
		lmax = 9
	}
	abs := in.tc.IntAbs(x.T)
	pow := func(k int) *Term { return in.tc.IntConst(new(big.Int).Lsh(big.NewInt(1), uint(8*k))) }
	return &LazySlice{thunk: func() Slice {
		in.noteAssumption(fmt.Sprintf("big.Int.Bytes() of a non-byte-derived value: |x| < 256^%d", lmax))
		in.assumeFeasible(in.tc.IntCmp("<", abs, pow(lmax)))
		L := in.decide(lmax+1, func(l int) *Term {
			if l == 0 {
				return in.tc.Eq(abs, in.tc.IntConst64(0))
			}
			return in.tc.And(in.tc.IntCmp(">=", abs, pow(l-1)), in.tc.IntCmp("<", abs, pow(l)))
		})
		bs := make([]BV, L)
		for i := 0; i < L; i++ {
			d := in.tc.IntMod(in.tc.IntDiv(abs, new(big.Int).Lsh(big.NewInt(1), uint(8*(L-1-i)))), big.NewInt(256))
			bs[i] = in.mkBV(in.tc.Int2BV(d, 8))
		}
		return mk(bs).(Slice)
	}}
}

// bigBitLen: the bit length of |x| (0 for 0), from the forced magnitude bytes.
func bigBitLen(in *Interp, fn *ssa.Function, a []Value) Value {
	bs := sliceBytes(force(bigBytes(in, fn, a)).(Slice))
	if len(bs) == 0 {
		return concBV(64, 0)
	}
	top := in.resolveBV(bs[0])
	base := uint64(8 * (len(bs) - 1))
	if top.T == nil {
		n := uint64(0)
		for v := top.C; v != 0; v >>= 1 {
			n++
		}
		return concBV(64, base+n)
	}
	// the leading byte of the magnitude is non-zero: its length is 1 + index of its highest set bit
	t := in.tc.BVConst(64, base+1)
	for bit := 1; bit < 8; bit++ {
		set := in.tc.Eq(in.tc.Extract(bit, bit, top.T), in.tc.BVConst(1, 1))
		t = in.tc.Ite(set, in.tc.BVConst(64, base+uint64(bit)+1), t)
	}
	return in.mkBV(t)
}

// bigFillBytes: buf is zeroed and |x| written right-aligned; panics when it does not fit.
func bigFillBytes(in *Interp, fn *ssa.Function, a []Value) Value {
	bs := sliceBytes(force(bigBytes(in, fn, a[:1])).(Slice))
	buf := force(a[1]).(Slice)
	if len(bs) > len(buf.A) {
		in.goPanic("math/big: buffer too small to fit value")
	}
	off := len(buf.A) - len(bs)
	for i := range buf.A {
		in.onWrite(&buf.A[i])
		if i < off {
			buf.A[i] = concBV(8, 0)
		} else {
			buf.A[i] = bs[i-off]
		}
	}
	return buf
}

func (in *Interp) assumeFeasible(c *Term) {
	if c.IsConst() {
		if c.CU == 0 {
			panic(&pathEnd{"assume false"})
		}
		return
	}
	if !in.replaying() {
		if in.sol.Check(c) == Unsat {
			panic(&pathEnd{"assume infeasible"})
		}
	}
	in.assume(c)
}

func (in *Interp) noteAssumption(s string) {
	in.cfg.Shared.mu.Lock()
	if in.cfg.Shared.Assumptions == nil {
		in.cfg.Shared.Assumptions = map[string]bool{}
	}
	in.cfg.Shared.Assumptions[s] = true
	in.cfg.Shared.mu.Unlock()
}

func (in *Interp) cmpTerm(x, y *Term) BV {
	lt := in.tc.IntCmp("<", x, y)
	eq := in.tc.Eq(x, y)
	t := in.tc.Ite(lt, in.tc.BVConst(64, ^uint64(0)), in.tc.Ite(eq, in.tc.BVConst(64, 0), in.tc.BVConst(64, 1)))
	return in.mkBV(t)
}

func bigCmp(in *Interp, fn *ssa.Function, a []Value) Value {
	x, y := in.bigOf(a[0]), in.bigOf(a[1])
	return in.cmpTerm(x.T, y.T)
}

func bigCmpAbs(in *Interp, fn *ssa.Function, a []Value) Value {
	x, y := in.bigOf(a[0]), in.bigOf(a[1])
	return in.cmpTerm(in.tc.IntAbs(x.T), in.tc.IntAbs(y.T))
}

func bigArith(in *Interp, op string, a []Value) Value {
	z := in.bigRecv(a[0])
	x, y := in.bigOf(a[1]), in.bigOf(a[2])
	in.onWrite(z)
	*z = Big{T: in.tc.IntBin(op, x.T, y.T)}
	return z
}

func bigNeg(in *Interp, fn *ssa.Function, a []Value) Value {
	z := in.bigRecv(a[0])
	x := in.bigOf(a[1])
	in.onWrite(z)
	*z = Big{T: in.tc.IntNeg(x.T), FromBytes: x.FromBytes}
	return z
}

func bigAbs(in *Interp, fn *ssa.Function, a []Value) Value {
	z := in.bigRecv(a[0])
	x := in.bigOf(a[1])
	in.onWrite(z)
	*z = Big{T: in.tc.IntAbs(x.T), FromBytes: x.FromBytes}
	return z
}

func bigSet(in *Interp, fn *ssa.Function, a []Value) Value {
	z := in.bigRecv(a[0])
	x := in.bigOf(a[1])
	if z != a[1].(*Value) {
		in.onWrite(z)
		*z = x
	}
	return z
}

func bigSetUint64(in *Interp, fn *ssa.Function, a []Value) Value {
	z := in.bigRecv(a[0])
	v := in.resolveBV(a[1].(BV))
	in.onWrite(z)
	if v.T == nil {
		*z = Big{T: in.tc.IntConst(bigFromU64(v.C))}
		return z
	}
	bs := make([]BV, 8)
	for i := 0; i < 8; i++ {
		bs[i] = in.mkBV(in.tc.Extract(63-8*i, 56-8*i, v.T))
	}
	*z = Big{T: in.tc.BV2Nat(v.T), FromBytes: bs}
	return z
}

func bigSetInt64(in *Interp, fn *ssa.Function, a []Value) Value {
	z := in.bigRecv(a[0])
	in.onWrite(z)
	*z = Big{T: in.signedInt(a[1].(BV)), FromBytes: in.signedMagBytes(a[1].(BV))}
	return z
}

func (in *Interp) low64(x Big) BV {
	if x.T.IsConst() {
		return concBV(64, new(big.Int).Abs(x.T.CI).Uint64())
	}
	if x.FromBytes != nil {
		bs := x.FromBytes
		if len(bs) > 8 {
			bs = bs[len(bs)-8:]
		}
		if len(bs) == 0 {
			return BV{W: 64}
		}
		acc := in.bvTerm(in.resolveBV(bs[0]))
		for _, b := range bs[1:] {
			acc = in.tc.Concat(acc, in.bvTerm(in.resolveBV(b)))
		}
		return in.mkBV(in.tc.ZExt(acc, 64))
	}
	return in.mkBV(in.tc.Int2BV(in.tc.IntAbs(x.T), 64))
}

func bigUint64(in *Interp, fn *ssa.Function, a []Value) Value {
	return in.low64(in.bigOf(a[0]))
}

func bigInt64(in *Interp, fn *ssa.Function, a []Value) Value {
	x := in.bigOf(a[0])
	lo := in.low64(x)
	neg := in.tc.IntCmp("<", x.T, in.tc.IntConst64(0))
	return in.mkBV(in.tc.Ite(neg, in.tc.BVNeg(in.bvTerm(lo)), in.bvTerm(lo)))
}

func bigSign(in *Interp, fn *ssa.Function, a []Value) Value {
	x := in.bigOf(a[0])
	return in.cmpTerm(x.T, in.tc.IntConst64(0))
}

func bigIsUint64(in *Interp, fn *ssa.Function, a []Value) Value {
	x := in.bigOf(a[0])
	two64 := new(big.Int).Lsh(big.NewInt(1), 64)
	return in.mkBool(in.tc.And(in.tc.IntCmp(">=", x.T, in.tc.IntConst64(0)), in.tc.IntCmp("<", x.T, in.tc.IntConst(two64))))
}

// ---------- errors / fmt ----------

func (in *Interp) isErrorIface(v Value) bool {
	iv, ok := v.(Iface)
	if !ok || iv.T == nil {
		return false
	}
	errT := types.Universe.Lookup("error").Type().Underlying().(*types.Interface)
	return types.Implements(iv.T, errT)
}

func errorsIs(in *Interp, fn *ssa.Function, a []Value) Value {
	err, target := a[0].(Iface), a[1].(Iface)
	if err.T == nil || target.T == nil {
		return Bool{C: err.T == nil && target.T == nil}
	}
	for depth := 0; depth < 20; depth++ {
		if in.branch(in.equal(err, target)) {
			return Bool{C: true}
		}
		sel := in.prog.MethodSets.MethodSet(err.T).Lookup(nil, "Unwrap")
		if sel == nil {
			return Bool{}
		}
		m := in.prog.MethodValue(sel)
		if m == nil || m.Signature.Results().Len() != 1 {
			return Bool{}
		}
		if _, ok := m.Signature.Results().At(0).Type().Underlying().(*types.Interface); !ok {
			return Bool{}
		}
		r := in.callFn(m, []Value{err.V}, nil).(Iface)
		if r.T == nil {
			return Bool{}
		}
		err = r
	}
	return Bool{}
}

func (in *Interp) fmtType(name string) types.Type {
	if t, ok := in.fmtTypes[name]; ok {
		return t
	}
	parts := strings.SplitN(name, ".", 2)
	p := in.prog.ImportedPackage(parts[0])
	if p == nil {
		panic(in.unsupported("package " + parts[0] + " not loaded"))
	}
	t := p.Type(parts[1]).Type()
	in.fmtTypes[name] = t
	return t
}

// fmtErrorf models fmt.Errorf: an error object with identity that wraps the first error
// operand when the (concrete) format contains %w; the message itself is opaque.
func fmtErrorf(in *Interp, fn *ssa.Function, a []Value) Value {
	format, _ := a[0].(Str).concrete()
	var wrapped Value
	if strings.Contains(format, "%w") {
		for _, x := range a[1].(Slice).A {
			if in.isErrorIface(x) {
				wrapped = x
				break
			}
		}
	}
	msg := strFromGo("<errorf:" + format + ">")
	if wrapped != nil {
		t := in.fmtType("fmt.wrapError")
		slot := new(Value)
		*slot = Struct{F: []Value{msg, wrapped}}
		return Iface{T: types.NewPointer(t), V: slot}
	}
	t := in.fmtType("errors.errorString")
	slot := new(Value)
	*slot = Struct{F: []Value{msg}}
	return Iface{T: types.NewPointer(t), V: slot}
}

// bytesCompare is the three-way lexicographic comparison (-1, 0, +1) as one 64-bit value.
func (in *Interp) bytesCompare(x, y Str) Value {
	lt := in.resolveBool(in.strLess(x, y))
	eq := in.resolveBool(in.strEq(x, y))
	if lt.T == nil && eq.T == nil {
		switch {
		case lt.C:
			return concBV(64, ^uint64(0))
		case eq.C:
			return concBV(64, 0)
		}
		return concBV(64, 1)
	}
	t := in.tc.Ite(in.boolTerm(lt), in.tc.BVConst(64, ^uint64(0)),
		in.tc.Ite(in.boolTerm(eq), in.tc.BVConst(64, 0), in.tc.BVConst(64, 1)))
	return in.mkBV(t)
}

// sortSlice is sort.Slice / sort.SliceStable as a stable insertion sort over the slice's own
// backing array; every call of less is an ordinary (possibly forking) branch.
func sortSlice(in *Interp, fn *ssa.Function, a []Value) Value {
	ifc, ok := a[0].(Iface)
	if !ok || ifc.T == nil {
		in.goPanic("sort.Slice: nil interface")
	}
	sl, ok := force(ifc.V).(Slice)
	if !ok {
		panic(in.unsupported("sort.Slice on a non-slice"))
	}
	less, ok := a[1].(*Closure)
	if !ok || less == nil {
		in.goPanic("sort.Slice: nil less function")
	}
	if len(sl.A) > 8 {
		panic(in.unsupported("sort.Slice on more than 8 elements"))
	}
	for i := 1; i < len(sl.A); i++ {
		for j := i; j > 0; j-- {
			r := in.invoke(less, []Value{concBV(64, uint64(j)), concBV(64, uint64(j-1))}, less.Env)
			b, ok := r.(Bool)
			if !ok {
				panic(in.unsupported("sort.Slice: less does not return bool"))
			}
			if !in.branch(b) {
				break
			}
			sl.A[j], sl.A[j-1] = sl.A[j-1], sl.A[j]
		}
	}
	return nil
}

// fmtSprintf implements the verbs a refactoring is likely to use for building data strings:
// %s / %v on strings and byte slices, %x / %X on strings and byte slices (symbolic bytes
// included), %d on concrete integers, %%. Anything else (flags, widths, other verbs or operand
// kinds - in this code base only error and log messages) yields the opaque "<sprintf>".
func fmtSprintf(in *Interp, fn *ssa.Function, a []Value) Value {
	opaque := strFromGo("<sprintf>")
	format, ok := a[0].(Str).concrete()
	if !ok {
		return opaque
	}
	var ops []Value
	if sl, ok := a[1].(Slice); ok {
		ops = sl.A
	}
	var out []BV
	k := 0
	for i := 0; i < len(format); i++ {
		c := format[i]
		if c != '%' {
			out = append(out, BV{W: 8, C: uint64(c)})
			continue
		}
		i++
		if i >= len(format) {
			return opaque
		}
		verb := format[i]
		if verb == '%' {
			out = append(out, BV{W: 8, C: '%'})
			continue
		}
		if k >= len(ops) {
			return opaque
		}
		ifc, ok := ops[k].(Iface)
		k++
		if !ok || ifc.T == nil {
			return opaque
		}
		var bs []BV
		isBytes := false
		switch v := force(ifc.V).(type) {
		case Str:
			bs, isBytes = v.B, true
		case Slice:
			if bt, ok := ifc.T.Underlying().(*types.Slice); ok {
				if eb, ok := bt.Elem().Underlying().(*types.Basic); ok && eb.Kind() == types.Uint8 {
					bs, isBytes = sliceBytes(v), true
				}
			}
		case BV:
			if verb == 'd' || verb == 'v' {
				r := in.resolveBV(v)
				if r.T != nil {
					return opaque
				}
				signed := false
				if bt, ok := ifc.T.Underlying().(*types.Basic); ok {
					signed = bt.Info()&types.IsUnsigned == 0
				}
				if signed {
					x := int64(r.C)
					if r.W < 64 {
						x = int64(r.C<<(64-uint(r.W))) >> (64 - uint(r.W))
					}
					out = append(out, strFromGo(strconv.FormatInt(x, 10)).B...)
				} else {
					out = append(out, strFromGo(strconv.FormatUint(r.C, 10)).B...)
				}
				continue
			}
			return opaque
		default:
			return opaque
		}
		if !isBytes {
			return opaque
		}
		switch verb {
		case 's', 'v':
			if verb == 'v' {
				if _, isStr := force(ifc.V).(Str); !isStr {
					return opaque // %v of a byte slice prints a list of numbers
				}
			}
			out = append(out, bs...)
		case 'x', 'X':
			digits := strFromGo("0123456789abcdef")
			if verb == 'X' {
				digits = strFromGo("0123456789ABCDEF")
			}
			for _, b := range bs {
				hi := in.convertBV(in.bvBin("bvlshr", b, concBV(8, 4)), false, 64)
				lo := in.convertBV(in.bvBin("bvand", b, concBV(8, 15)), false, 64)
				out = append(out, in.strIndex(digits, hi).(BV), in.strIndex(digits, lo).(BV))
			}
		default:
			return opaque
		}
	}
	if k != len(ops) {
		return opaque
	}
	return Str{B: out}
}

func stringsJoin(in *Interp, fn *ssa.Function, a []Value) Value {
	elems := a[0].(Slice).A
	sep := a[1].(Str)
	var out []BV
	for i, e := range elems {
		if i > 0 {
			out = append(out, sep.B...)
		}
		out = append(out, e.(Str).B...)
	}
	return Str{B: out}
}

// ---------- bytealg ----------

func (in *Interp) indexByte(s []BV, c BV) Value {
	acc := in.tc.BVConst(64, ^uint64(0))
	anySym := false
	for i := len(s) - 1; i >= 0; i-- {
		eq := in.bvEq(s[i], c)
		if eq.T != nil {
			anySym = true
		}
		acc = in.tc.Ite(in.boolTerm(eq), in.tc.BVConst(64, uint64(i)), acc)
	}
	_ = anySym
	return in.mkBV(acc)
}

func (in *Interp) countByte(s []BV, c BV) Value {
	acc := BV{W: 64}
	for i := range s {
		eq := in.resolveBool(in.bvEq(s[i], c))
		if eq.T == nil {
			if eq.C {
				acc = in.bvBin("bvadd", acc, concBV(64, 1))
			}
			continue
		}
		one := in.mkBV(in.tc.Ite(eq.T, in.tc.BVConst(64, 1), in.tc.BVConst(64, 0)))
		acc = in.bvBin("bvadd", acc, one)
	}
	return acc
}

// ---------- sync/atomic as plain memory with access events ----------

func atomicLoad(in *Interp, fn *ssa.Function, a []Value) Value {
	p := a[0].(*Value)
	if p == nil {
		in.goPanic("nil pointer dereference (atomic load)")
	}
	in.atomicEvent(p, "load")
	return *p
}

func atomicStore(in *Interp, fn *ssa.Function, a []Value) Value {
	p := a[0].(*Value)
	if p == nil {
		in.goPanic("nil pointer dereference (atomic store)")
	}
	in.atomicEvent(p, "store")
	*p = a[1]
	return nil
}

func atomicSwap(in *Interp, fn *ssa.Function, a []Value) Value {
	p := a[0].(*Value)
	if p == nil {
		in.goPanic("nil pointer dereference (atomic swap)")
	}
	in.atomicEvent(p, "rmw")
	old := *p
	*p = a[1]
	return old
}

func atomicAdd(in *Interp, fn *ssa.Function, a []Value) Value {
	p := a[0].(*Value)
	if p == nil {
		in.goPanic("nil pointer dereference (atomic add)")
	}
	in.atomicEvent(p, "rmw")
	n := in.bvBin("bvadd", (*p).(BV), a[1].(BV))
	*p = n
	return n
}

func atomicCAS(in *Interp, fn *ssa.Function, a []Value) Value {
	p := a[0].(*Value)
	if p == nil {
		in.goPanic("nil pointer dereference (atomic cas)")
	}
	in.atomicEvent(p, "rmw")
	if in.branch(in.bvEq((*p).(BV), a[1].(BV))) {
		*p = a[2]
		return Bool{C: true}
	}
	return Bool{}
}

func atomicValueLoad(in *Interp, fn *ssa.Function, a []Value) Value {
	p := a[0].(*Value)
	if p == nil {
		in.goPanic("nil pointer dereference (atomic.Value)")
	}
	in.atomicEvent(p, "load")
	st := (*p).(Struct)
	return st.F[0]
}

func atomicValueStore(in *Interp, fn *ssa.Function, a []Value) Value {
	p := a[0].(*Value)
	if p == nil {
		in.goPanic("nil pointer dereference (atomic.Value)")
	}
	v := a[1].(Iface)
	if v.T == nil {
		in.goPanic("sync/atomic: store of nil value into Value")
	}
	in.atomicEvent(p, "store")
	st := (*p).(Struct)
	if old, ok := st.F[0].(Iface); ok && old.T != nil && !types.Identical(old.T, v.T) {
		in.goPanic("sync/atomic: store of inconsistently typed value into Value")
	}
	st.F[0] = v
	return nil
}
