package sym

import (
	"fmt"
	"go/types"
	"strings"
)

// ---------- write monitor (C13 / C20): slots reachable from a watched root are read-only ----------

func (in *Interp) watchRoots(v Value, tag string) {
	if in.watch == nil {
		in.watch = map[*Value]string{}
	}
	seen := map[*Value]bool{}
	var walk func(v Value, path string)
	walkSlot := func(p *Value, path string) {
		if p == nil || seen[p] {
			return
		}
		seen[p] = true
		in.watch[p] = path
		walk(*p, path)
	}
	walk = func(v Value, path string) {
		switch x := v.(type) {
		case *Value:
			walkSlot(x, path)
		case Slice:
			full := x.A[:cap(x.A)]
			for i := range full {
				walkSlot(&full[i], fmt.Sprintf("%s[%d]", path, i))
			}
		case Struct:
			for i := range x.F {
				walkSlot(&x.F[i], fmt.Sprintf("%s.f%d", path, i))
			}
		case Array:
			for i := range x.E {
				walkSlot(&x.E[i], fmt.Sprintf("%s[%d]", path, i))
			}
		case Iface:
			walk(x.V, path)
		case *MapObj:
			if x != nil {
				for i := range x.Vals {
					walk(x.Vals[i], fmt.Sprintf("%s{%d}", path, i))
				}
			}
		}
	}
	walk(v, tag)
	in.watchOn = true
}

// watchObject marks the state of a repo object (a built-in function instance) read-only, guided
// by its static type: scalar and []byte fields (with their spare capacity), nested structs and
// pointers to other repo structs are followed; interface-typed fields (the injected stubs) and
// objects of the harness are not.
func (in *Interp) watchObject(v Value, t types.Type, tag string, depth int) {
	if in.watch == nil {
		in.watch = map[*Value]string{}
	}
	if depth > 6 {
		return
	}
	var walkVal func(p *Value, t types.Type, path string)
	walkVal = func(p *Value, t types.Type, path string) {
		if p == nil {
			return
		}
		if _, seen := in.watch[p]; seen {
			return
		}
		switch u := t.Underlying().(type) {
		case *types.Basic:
			in.watch[p] = path
		case *types.Struct:
			if n, ok := t.(*types.Named); ok && n.Obj().Pkg() != nil && (n.Obj().Pkg().Path() == "sync" || n.Obj().Pkg().Path() == "sync/atomic") {
				return
			}
			st, ok := (*p).(Struct)
			if !ok {
				return
			}
			for i := 0; i < u.NumFields() && i < len(st.F); i++ {
				walkVal(&st.F[i], u.Field(i).Type(), path+"."+u.Field(i).Name())
			}
		case *types.Slice:
			in.watch[p] = path
			sl, ok := (*p).(Slice)
			if !ok {
				return
			}
			if eb, ok := u.Elem().Underlying().(*types.Basic); ok && eb.Info()&types.IsNumeric != 0 {
				full := sl.A[:cap(sl.A)]
				for i := range full {
					in.watch[&full[i]] = fmt.Sprintf("%s[%d]", path, i)
				}
			}
		case *types.Pointer:
			in.watch[p] = path
			if n, ok := u.Elem().(*types.Named); ok && n.Obj().Pkg() != nil && isRepoPkg(n.Obj().Pkg().Path()) && !strings.Contains(n.Obj().Pkg().Path(), "zz_verif") {
				if q, ok := (*p).(*Value); ok && q != nil {
					in.watchObject(q, u.Elem(), path+"->", depth+1)
				}
			}
		case *types.Map:
			in.watch[p] = path
		case *types.Interface:
			// injected dependency: not part of the function object's own state
		}
	}
	switch x := v.(type) {
	case *Value:
		walkVal(x, t, tag)
	}
	in.watchOn = true
}

// ---------- lock state (C19 step 1) ----------

type lockState struct {
	writer  bool
	readers int
}

type accessRule struct {
	lock  *Value // the RWMutex slot guarding the location (nil: must never be written)
	label string
}

// lockMonitor checks the lock discipline on registered shared locations.
type lockMonitor struct {
	rules    map[*Value]accessRule
	atomics  map[*Value]string
	wsection map[*Value]int // per lock: id of the current write section
	wroteIn  map[string]map[int]bool
}

func (in *Interp) lockOp(p *Value, op string) {
	if p == nil {
		in.goPanic("nil pointer dereference (mutex)")
	}
	if in.locks == nil {
		in.locks = map[*Value]*lockState{}
	}
	st := in.locks[p]
	if st == nil {
		st = &lockState{}
		in.locks[p] = st
	}
	if in.sched != nil {
		in.sched.lockOp(in, p, st, op)
		return
	}
	switch op {
	case "Lock":
		if st.writer || st.readers > 0 {
			in.res.addViolationRaw("lock-discipline", "self-deadlock: Lock while held at "+in.posString())
			panic(&pathEnd{"deadlock"})
		}
		st.writer = true
		if in.mon != nil {
			in.mon.wsection[p]++
		}
	case "Unlock":
		if !st.writer {
			in.goPanic("sync: Unlock of unlocked RWMutex")
		}
		st.writer = false
	case "RLock":
		if st.writer {
			in.res.addViolationRaw("lock-discipline", "self-deadlock: RLock while write-held at "+in.posString())
			panic(&pathEnd{"deadlock"})
		}
		st.readers++
	case "RUnlock":
		if st.readers == 0 {
			in.goPanic("sync: RUnlock of unlocked RWMutex")
		}
		st.readers--
	}
}

func (in *Interp) atomicEvent(p *Value, kind string) {
	if in.sched != nil {
		in.sched.yield(in, "atomic-"+kind)
	}
	if in.mon != nil {
		in.mon.atomicSeen(in, p, kind)
	}
}

func (m *lockMonitor) atomicSeen(in *Interp, p *Value, kind string) {}

func (m *lockMonitor) access(in *Interp, p *Value, write bool) {
	if lbl, ok := m.atomics[p]; ok {
		in.res.addViolationRaw("lock-discipline", "plain access to atomic cell "+lbl+" at "+in.posString())
		return
	}
	r, ok := m.rules[p]
	if !ok {
		return
	}
	if r.lock == nil {
		if write {
			in.res.addViolationRaw("lock-discipline", "write to shared read-only location "+r.label+" at "+in.posString())
		}
		return
	}
	st := in.locks[r.lock]
	if write {
		if st == nil || !st.writer {
			in.res.addViolationRaw("lock-discipline", "write to "+r.label+" without the write lock at "+in.posString())
			return
		}
		sec := m.wsection[r.lock]
		grp := r.label[:indexOrLen(r.label, '.')]
		if m.wroteIn[grp] == nil {
			m.wroteIn[grp] = map[int]bool{}
		}
		m.wroteIn[grp][sec] = true
		if len(m.wroteIn[grp]) > 1 {
			in.res.addViolationRaw("lock-discipline", "fields of "+grp+" written in more than one write section at "+in.posString())
		}
	} else {
		if st == nil || (!st.writer && st.readers == 0) {
			in.res.addViolationRaw("lock-discipline", "read of "+r.label+" without holding the lock at "+in.posString())
		}
	}
}

func indexOrLen(s string, c byte) int {
	for i := 0; i < len(s); i++ {
		if s[i] == c {
			return i
		}
	}
	return len(s)
}

// ---------- scheduler placeholder (C19 step 2) ----------

type scheduler struct{}

func (s *scheduler) lockOp(in *Interp, p *Value, st *lockState, op string) {}
func (s *scheduler) yield(in *Interp, what string)                          {}

func (in *Interp) spawn(cl *Closure, args []Value, env []Value) {
	panic(in.unsupported("go statement"))
}
