package sym

import (
	"fmt"
	"go/types"
	"sort"

	"golang.org/x/tools/go/ssa"
	"strings"
)

// ---------- write monitor (C13 / C20): slots reachable from a watched root are read-only ----------

func (in *Interp) watchRoots(v Value, tag string) {
	if in.watch == nil {
		in.watch = map[*Value]string{}
	}
	seen := map[*Value]bool{}
	var walk func(v Value, path string)
	walkSlot := func(p *Value, path string) {
		if p == nil || seen[p] {
			return
		}
		seen[p] = true
		in.watch[p] = path
		walk(*p, path)
	}
	walk = func(v Value, path string) {
		switch x := v.(type) {
		case *Value:
			walkSlot(x, path)
		case Slice:
			full := x.A[:cap(x.A)]
			for i := range full {
				walkSlot(&full[i], fmt.Sprintf("%s[%d]", path, i))
			}
		case Struct:
			for i := range x.F {
				walkSlot(&x.F[i], fmt.Sprintf("%s.f%d", path, i))
			}
		case Array:
			for i := range x.E {
				walkSlot(&x.E[i], fmt.Sprintf("%s[%d]", path, i))
			}
		case Iface:
			walk(x.V, path)
		case *MapObj:
			if x != nil {
				for i := range x.Vals {
					walk(x.Vals[i], fmt.Sprintf("%s{%d}", path, i))
				}
			}
		}
	}
	walk(v, tag)
	in.watchOn = true
}

// watchObject marks the state of a repo object (a built-in function instance) read-only, guided
// by its static type: scalar and []byte fields (with their spare capacity), nested structs and
// pointers to other repo structs are followed; interface-typed fields (the injected stubs) and
// objects of the harness are not.
func (in *Interp) watchObject(v Value, t types.Type, tag string, depth int) {
	if in.watch == nil {
		in.watch = map[*Value]string{}
	}
	if depth > 6 {
		return
	}
	var walkVal func(p *Value, t types.Type, path string)
	walkVal = func(p *Value, t types.Type, path string) {
		if p == nil {
			return
		}
		if _, seen := in.watch[p]; seen {
			return
		}
		switch u := t.Underlying().(type) {
		case *types.Basic:
			in.watch[p] = path
		case *types.Struct:
			if n, ok := t.(*types.Named); ok && n.Obj().Pkg() != nil && (n.Obj().Pkg().Path() == "sync" || n.Obj().Pkg().Path() == "sync/atomic") {
				return
			}
			st, ok := (*p).(Struct)
			if !ok {
				return
			}
			for i := 0; i < u.NumFields() && i < len(st.F); i++ {
				walkVal(&st.F[i], u.Field(i).Type(), path+"."+u.Field(i).Name())
			}
		case *types.Slice:
			in.watch[p] = path
			sl, ok := (*p).(Slice)
			if !ok {
				return
			}
			if eb, ok := u.Elem().Underlying().(*types.Basic); ok && eb.Info()&types.IsNumeric != 0 {
				full := sl.A[:cap(sl.A)]
				for i := range full {
					in.watch[&full[i]] = fmt.Sprintf("%s[%d]", path, i)
				}
			}
		case *types.Pointer:
			in.watch[p] = path
			if n, ok := u.Elem().(*types.Named); ok && n.Obj().Pkg() != nil && isRepoPkg(n.Obj().Pkg().Path()) && !strings.Contains(n.Obj().Pkg().Path(), "zz_verif") {
				if q, ok := (*p).(*Value); ok && q != nil {
					in.watchObject(q, u.Elem(), path+"->", depth+1)
				}
			}
		case *types.Map:
			in.watch[p] = path
		case *types.Interface:
			// injected dependency: not part of the function object's own state
		}
	}
	switch x := v.(type) {
	case *Value:
		walkVal(x, t, tag)
	}
	if depth == 0 && !in.globalsWatched {
		// package-level state of the repository's own packages (key prefixes, the shared zero,
		// address constants): scalars, byte slices including their spare capacity, and the
		// big.Int a package-level pointer refers to. A call never writes them - an in-place
		// append into a prefix that was given spare capacity, or arithmetic on the shared zero,
		// would make one call's result depend on another's.
		in.globalsWatched = true
		var pkgs []*ssa.Package
		for _, p := range in.prog.AllPackages() {
			if p.Pkg != nil && isRepoPkg(p.Pkg.Path()) && !strings.Contains(p.Pkg.Path(), "zz_verif") && !strings.Contains(p.Pkg.Path(), "/mock") {
				pkgs = append(pkgs, p)
			}
		}
		sort.Slice(pkgs, func(i, j int) bool { return pkgs[i].Pkg.Path() < pkgs[j].Pkg.Path() })
		for _, p := range pkgs {
			var names []string
			for n, m := range p.Members {
				if _, ok := m.(*ssa.Global); ok {
					names = append(names, n)
				}
			}
			sort.Strings(names)
			for _, n := range names {
				g := p.Members[n].(*ssa.Global)
				et := g.Type().(*types.Pointer).Elem()
				switch u := et.Underlying().(type) {
				case *types.Basic:
				case *types.Slice:
					if eb, ok := u.Elem().Underlying().(*types.Basic); !ok || eb.Info()&types.IsNumeric == 0 {
						continue
					}
				case *types.Pointer:
					if u.Elem().String() != "math/big.Int" {
						continue
					}
				default:
					continue
				}
				slot := in.global(g)
				path := "package variable " + p.Pkg.Name() + "." + n
				walkVal(slot, et, path)
				if _, ok := et.Underlying().(*types.Pointer); ok {
					if q, ok := (*slot).(*Value); ok && q != nil {
						if _, seen := in.watch[q]; !seen {
							in.watch[q] = path + " (pointee)"
						}
					}
				}
			}
		}
	}
	in.watchOn = true
}

// ---------- lock state (C19 step 1) ----------

type lockState struct {
	writer  bool
	readers int
}

type accessRule struct {
	lock  *Value // the RWMutex slot guarding the location (nil: must never be written)
	label string
}

// lockMonitor checks the lock discipline on registered shared locations.
type lockMonitor struct {
	rules    map[*Value]accessRule
	atomics  map[*Value]string
	wsection map[*Value]int // per lock: id of the current write section
	wroteIn  map[string]map[int]bool
	maps     map[*MapObj]accessRule
	on       bool
}

func (in *Interp) lockOp(p *Value, op string) {
	if p == nil {
		in.goPanic("nil pointer dereference (mutex)")
	}
	if in.locks == nil {
		in.locks = map[*Value]*lockState{}
	}
	st := in.locks[p]
	if st == nil {
		st = &lockState{}
		in.locks[p] = st
	}
	if in.sched != nil {
		in.sched.lockOp(in, p, st, op)
		return
	}
	in.plainLockOp(p, st, op)
}

func (in *Interp) plainLockOp(p *Value, st *lockState, op string) {
	switch op {
	case "Lock":
		if st.writer || st.readers > 0 {
			in.res.addViolationRaw("lock-discipline", "self-deadlock: Lock while held at "+in.posString())
			panic(&pathEnd{"deadlock"})
		}
		st.writer = true
		if in.mon != nil {
			in.mon.wsection[p]++
		}
	case "Unlock":
		if !st.writer {
			in.goPanic("sync: Unlock of unlocked RWMutex")
		}
		st.writer = false
	case "RLock":
		if st.writer {
			in.res.addViolationRaw("lock-discipline", "self-deadlock: RLock while write-held at "+in.posString())
			panic(&pathEnd{"deadlock"})
		}
		st.readers++
	case "RUnlock":
		if st.readers == 0 {
			in.goPanic("sync: RUnlock of unlocked RWMutex")
		}
		st.readers--
	}
}

func (in *Interp) atomicEvent(p *Value, kind string) {
	if in.sched != nil {
		in.sched.yield(in, "atomic-"+kind)
	}
	if in.mon != nil {
		in.mon.atomicSeen(in, p, kind)
	}
}

func (m *lockMonitor) atomicSeen(in *Interp, p *Value, kind string) {}

func (m *lockMonitor) access(in *Interp, p *Value, write bool) {
	if !m.on {
		return
	}
	if lbl, ok := m.atomics[p]; ok {
		in.res.addViolationRaw("lock-discipline", "plain access to atomic cell "+lbl+" at "+in.posString())
		return
	}
	r, ok := m.rules[p]
	if !ok {
		return
	}
	if r.lock == nil {
		if write {
			in.res.addViolationRaw("lock-discipline", "write to shared read-only location "+r.label+" at "+in.posString())
		}
		return
	}
	st := in.locks[r.lock]
	if write {
		if st == nil || !st.writer {
			in.res.addViolationRaw("lock-discipline", "write to "+r.label+" without the write lock at "+in.posString())
			return
		}
		sec := m.wsection[r.lock]
		grp := r.label[:indexOrLen(r.label, '.')]
		if m.wroteIn[grp] == nil {
			m.wroteIn[grp] = map[int]bool{}
		}
		m.wroteIn[grp][sec] = true
		if len(m.wroteIn[grp]) > 1 {
			in.res.addViolationRaw("lock-discipline", "fields of "+grp+" written in more than one write section at "+in.posString())
		}
	} else {
		if st == nil || (!st.writer && st.readers == 0) {
			in.res.addViolationRaw("lock-discipline", "read of "+r.label+" without holding the lock at "+in.posString())
		}
	}
}

func indexOrLen(s string, c byte) int {
	for i := 0; i < len(s); i++ {
		if s[i] == c {
			return i
		}
	}
	return len(s)
}

// resolveField walks a dotted field path from a struct slot, dereferencing pointers, and
// returns the slot and static type of the named field.
func (in *Interp) resolveField(p *Value, t types.Type, path string) (*Value, types.Type) {
	for _, seg := range strings.Split(path, ".") {
		for {
			pt, ok := t.Underlying().(*types.Pointer)
			if !ok {
				break
			}
			q, _ := (*p).(*Value)
			if q == nil {
				panic(in.unsupported("monitor: nil pointer on field path " + path))
			}
			p, t = q, pt.Elem()
		}
		st, ok := t.Underlying().(*types.Struct)
		if !ok {
			panic(in.unsupported("monitor: " + seg + " is not a field of a struct in path " + path))
		}
		sv, ok := (*p).(Struct)
		if !ok {
			panic(in.unsupported("monitor: struct value expected on path " + path))
		}
		found := false
		for i := 0; i < st.NumFields(); i++ {
			if st.Field(i).Name() == seg {
				p, t = &sv.F[i], st.Field(i).Type()
				found = true
				break
			}
		}
		if !found {
			panic(in.unsupported("monitor: no field " + seg + " (path " + path + ") - the harness no longer matches the tree"))
		}
	}
	return p, t
}

func (in *Interp) ensureMonitor() *lockMonitor {
	if in.mon == nil {
		in.mon = &lockMonitor{rules: map[*Value]accessRule{}, atomics: map[*Value]string{}, wsection: map[*Value]int{},
			wroteIn: map[string]map[int]bool{}, maps: map[*MapObj]accessRule{}}
	}
	return in.mon
}

// allSlots lists the scalar slots below a slot (the slot itself for scalars).
func allSlots(p *Value, out *[]*Value) {
	switch x := (*p).(type) {
	case Struct:
		for i := range x.F {
			allSlots(&x.F[i], out)
		}
	case Array:
		for i := range x.E {
			allSlots(&x.E[i], out)
		}
	default:
		*out = append(*out, p)
	}
}

// guardFields implements verif.GuardFields(obj, tag, lockField, fields...).
func (in *Interp) guardFields(obj Iface, tag, lockField string, fields []string) {
	pt, ok := obj.T.(*types.Pointer)
	if !ok {
		panic(in.unsupported("GuardFields on a non-pointer"))
	}
	root := obj.V.(*Value)
	m := in.ensureMonitor()
	var lock *Value
	if lockField != "" {
		lock, _ = in.resolveField(root, pt.Elem(), lockField)
	}
	for _, f := range fields {
		slot, ft := in.resolveField(root, pt.Elem(), f)
		if _, isMap := ft.Underlying().(*types.Map); isMap {
			if mo, ok := (*slot).(*MapObj); ok && mo != nil {
				m.maps[mo] = accessRule{lock: lock, label: tag + "." + f}
			}
			continue
		}
		var slots []*Value
		allSlots(slot, &slots)
		for _, sl := range slots {
			m.rules[sl] = accessRule{lock: lock, label: tag + "." + f}
		}
	}
}

func (in *Interp) atomicFields(obj Iface, tag string, fields []string) {
	pt, ok := obj.T.(*types.Pointer)
	if !ok {
		panic(in.unsupported("AtomicFields on a non-pointer"))
	}
	root := obj.V.(*Value)
	m := in.ensureMonitor()
	for _, f := range fields {
		slot, _ := in.resolveField(root, pt.Elem(), f)
		var slots []*Value
		allSlots(slot, &slots)
		for _, sl := range slots {
			m.atomics[sl] = tag + "." + f
		}
	}
}

func (in *Interp) onMapAccess(mo *MapObj, write bool) {
	if in.mon == nil || mo == nil || !in.mon.on {
		return
	}
	r, ok := in.mon.maps[mo]
	if !ok {
		return
	}
	st := in.locks[r.lock]
	if write {
		if st == nil || !st.writer {
			in.res.addViolationRaw("lock-discipline", "write to map "+r.label+" without the write lock at "+in.posString())
		}
	} else if st == nil || (!st.writer && st.readers == 0) {
		in.res.addViolationRaw("lock-discipline", "read of map "+r.label+" without holding the lock at "+in.posString())
	}
}

// ---------- cooperative scheduler (C19 step 2) ----------
//
// Interpreted goroutines run one at a time (baton passing between real goroutines that share
// the interpreter). A goroutine yields before every synchronisation operation (mutex and
// atomic operations); the scheduler then picks who continues - a decision of the path, so
// all interleavings at synchronisation-operation granularity are explored.

type threadKill struct{}

type thread struct {
	id      int
	cl      *Closure
	done    bool
	started bool
	resume  chan struct{}
	cur     *frame
	depth   int
	waitFor *Value // lock the thread is blocked on
	waitOp  string
}

type scheduler struct {
	threads  []*thread
	current  *thread
	mainWake chan struct{}
	kill     chan struct{}
	abort    interface{}
	running  bool
}

func (in *Interp) spawn(cl *Closure, args []Value, env []Value) {
	if in.sched == nil {
		in.sched = &scheduler{mainWake: make(chan struct{}), kill: make(chan struct{})}
	}
	bound := cl
	if len(args) > 0 {
		bound = &Closure{Fn: cl.Fn, Env: cl.Env, Intr: cl.Intr, Bound: append(append([]Value{}, cl.Bound...), args...)}
	}
	in.sched.threads = append(in.sched.threads, &thread{id: len(in.sched.threads), cl: bound, resume: make(chan struct{})})
}

func lockAvailable(st *lockState, op string) bool {
	switch op {
	case "Lock":
		return !st.writer && st.readers == 0
	case "RLock":
		return !st.writer
	}
	return true
}

// join runs all spawned goroutines to completion under a scheduler decision at every yield.
func (in *Interp) join() {
	s := in.sched
	if s == nil {
		return
	}
	mainCur, mainDepth := in.cur, in.depth
	s.running = true
	defer func() {
		s.running = false
		close(s.kill)
		in.cur, in.depth = mainCur, mainDepth
		in.sched = nil
	}()
	for {
		var runnable []*thread
		alive := 0
		for _, t := range s.threads {
			if t.done {
				continue
			}
			alive++
			if t.waitFor != nil {
				st := in.locks[t.waitFor]
				if st != nil && !lockAvailable(st, t.waitOp) {
					continue
				}
			}
			runnable = append(runnable, t)
		}
		if alive == 0 {
			return
		}
		if len(runnable) == 0 {
			in.res.addViolationRaw("lock-discipline", "deadlock: every goroutine is blocked on a lock")
			panic(&pathEnd{"deadlock"})
		}
		pick := 0
		if len(runnable) > 1 {
			tr := in.tc.BoolConst(true)
			pick = in.decide(len(runnable), func(i int) *Term { return tr })
			// the native twin's scheduler reads the same choice from the tape
			in.tape = append(in.tape, TapeEvent{Tag: "__sched", Kind: "choose", Choice: pick})
		}
		t := runnable[pick]
		s.current = t
		in.cur, in.depth = t.cur, t.depth
		if !t.started {
			t.started = true
			go func(t *thread) {
				defer func() {
					if r := recover(); r != nil {
						if _, killed := r.(threadKill); !killed {
							s.abort = r
						} else {
							return
						}
					}
					t.done = true
					s.mainWake <- struct{}{}
				}()
				select {
				case <-t.resume:
				case <-s.kill:
					panic(threadKill{})
				}
				in.depth = 0
				in.cur = nil
				in.invoke(t.cl, nil, t.cl.Env)
			}(t)
		}
		t.resume <- struct{}{}
		<-s.mainWake
		if s.abort != nil {
			a := s.abort
			s.abort = nil
			panic(a)
		}
	}
}

// yield hands control back to the scheduler (called by the running goroutine).
func (s *scheduler) yield(in *Interp, what string) {
	if !s.running || s.current == nil {
		return
	}
	t := s.current
	t.cur, t.depth = in.cur, in.depth
	s.mainWake <- struct{}{}
	select {
	case <-t.resume:
	case <-s.kill:
		panic(threadKill{})
	}
	in.cur, in.depth = t.cur, t.depth
}

// lockOp is a mutex operation of an interpreted goroutine: yield first, then block while the
// lock is unavailable.
func (s *scheduler) lockOp(in *Interp, p *Value, st *lockState, op string) {
	if !s.running || s.current == nil {
		in.plainLockOp(p, st, op)
		return
	}
	t := s.current
	s.yield(in, op)
	for !lockAvailable(st, op) {
		t.waitFor, t.waitOp = p, op
		s.yield(in, op+"-blocked")
	}
	t.waitFor = nil
	in.plainLockOp(p, st, op)
}
