// Package sym is a path-exploring symbolic executor for go/ssa that discharges
// branch-feasibility and assertion queries to an SMT solver (see /verif/DESIGN.md §3).
package sym

import (
	"fmt"
	"math/big"
	"strconv"
	"strings"
)

// Kind is the SMT sort family of a term.
type Kind uint8

const (
	KBool Kind = iota
	KBV
	KInt
)

// Term is a hash-consed SMT term. Terms are only created for symbolic values and for the
// constant leaves that appear as their arguments.
type Term struct {
	Op   string
	Args []*Term
	K    Kind
	W    int      // bit width (KBV)
	CU   uint64   // constant payload (KBV, KBool: 0/1)
	CI   *big.Int // constant payload (KInt)
	Name string   // variable name
	P0   int      // parameter (extract hi / extend amount / table id)
	P1   int      // parameter (extract lo)
	id   int
	size int // number of distinct nodes (approx., for inlining decisions)
}

func (t *Term) IsConst() bool { return t.Op == "const" }

// TermCtx owns the term universe of one path.
type TermCtx struct {
	terms   map[string]*Term
	nextID  int
	tables  []string // constant lookup tables (contents)
	tableID map[string]int
	subst   map[*Term]*Term // concretisations learned on this path
	nvars   int
	supp    map[*Term]*suppInfo
	HasHard bool // some multiplication/division term exists on this path
	Vars    []*Term
}

func NewTermCtx() *TermCtx {
	return &TermCtx{terms: map[string]*Term{}, tableID: map[string]int{}, subst: map[*Term]*Term{}}
}

func (c *TermCtx) intern(t *Term) *Term {
	var sb strings.Builder
	sb.WriteString(t.Op)
	sb.WriteByte('|')
	sb.WriteString(strconv.Itoa(int(t.K)))
	sb.WriteByte('|')
	sb.WriteString(strconv.Itoa(t.W))
	sb.WriteByte('|')
	sb.WriteString(strconv.Itoa(t.P0))
	sb.WriteByte('|')
	sb.WriteString(strconv.Itoa(t.P1))
	sb.WriteByte('|')
	if t.Op == "const" {
		if t.K == KInt {
			sb.WriteString(t.CI.String())
		} else {
			sb.WriteString(strconv.FormatUint(t.CU, 16))
		}
	} else if t.Op == "var" {
		sb.WriteString(t.Name)
	} else {
		for _, a := range t.Args {
			sb.WriteString(strconv.Itoa(a.id))
			sb.WriteByte(',')
		}
	}
	k := sb.String()
	if e, ok := c.terms[k]; ok {
		return e
	}
	c.nextID++
	t.id = c.nextID
	t.size = 1
	for _, a := range t.Args {
		t.size += a.size
	}
	c.terms[k] = t
	return t
}

func mask(w int) uint64 {
	if w >= 64 {
		return ^uint64(0)
	}
	return (uint64(1) << uint(w)) - 1
}

func (c *TermCtx) BVConst(w int, v uint64) *Term {
	return c.intern(&Term{Op: "const", K: KBV, W: w, CU: v & mask(w)})
}
func (c *TermCtx) BoolConst(b bool) *Term {
	v := uint64(0)
	if b {
		v = 1
	}
	return c.intern(&Term{Op: "const", K: KBool, CU: v})
}
func (c *TermCtx) IntConst(v *big.Int) *Term {
	return c.intern(&Term{Op: "const", K: KInt, CI: new(big.Int).Set(v)})
}
func (c *TermCtx) IntConst64(v int64) *Term { return c.IntConst(big.NewInt(v)) }

// NewVar creates a fresh variable. Names are unique per path and deterministic in creation
// order so that re-execution with a decision prefix rebuilds identical names.
func (c *TermCtx) NewVar(tag string, k Kind, w int) *Term {
	c.nvars++
	name := fmt.Sprintf("v%d_%s", c.nvars, sanitize(tag))
	t := c.intern(&Term{Op: "var", K: k, W: w, Name: name})
	c.Vars = append(c.Vars, t)
	return t
}

func sanitize(s string) string {
	var sb strings.Builder
	for _, r := range s {
		if (r >= 'a' && r <= 'z') || (r >= 'A' && r <= 'Z') || (r >= '0' && r <= '9') || r == '_' || r == '.' {
			sb.WriteRune(r)
		} else {
			sb.WriteByte('_')
		}
	}
	return sb.String()
}

var commutative = map[string]bool{"bvadd": true, "bvmul": true, "bvand": true, "bvor": true, "bvxor": true}

func (c *TermCtx) mk(op string, k Kind, w int, p0, p1 int, args ...*Term) *Term {
	for i, a := range args {
		if s, ok := c.subst[a]; ok {
			args[i] = s
		}
	}
	if (op == "bvmul" || op == "bvudiv" || op == "bvurem" || op == "bvsdiv" || op == "bvsrem") && w > 16 {
		c.HasHard = true
	}
	if len(args) == 2 && commutative[op] && args[0].id > args[1].id {
		args[0], args[1] = args[1], args[0]
	}
	return c.intern(&Term{Op: op, K: k, W: w, P0: p0, P1: p1, Args: args})
}

// ---- Bool constructors ----

func (c *TermCtx) Not(a *Term) *Term {
	if a.IsConst() {
		return c.BoolConst(a.CU == 0)
	}
	if a.Op == "not" {
		return a.Args[0]
	}
	return c.mk("not", KBool, 0, 0, 0, a)
}

func (c *TermCtx) And(as ...*Term) *Term {
	var out []*Term
	seen := map[*Term]bool{}
	for _, a := range as {
		if a.IsConst() {
			if a.CU == 0 {
				return c.BoolConst(false)
			}
			continue
		}
		if a.Op == "and" {
			for _, b := range a.Args {
				if !seen[b] {
					seen[b] = true
					out = append(out, b)
				}
			}
			continue
		}
		if !seen[a] {
			seen[a] = true
			out = append(out, a)
		}
	}
	if len(out) == 0 {
		return c.BoolConst(true)
	}
	if len(out) == 1 {
		return out[0]
	}
	return c.mk("and", KBool, 0, 0, 0, out...)
}

func (c *TermCtx) Or(as ...*Term) *Term {
	var out []*Term
	seen := map[*Term]bool{}
	for _, a := range as {
		if a.IsConst() {
			if a.CU != 0 {
				return c.BoolConst(true)
			}
			continue
		}
		if a.Op == "or" {
			for _, b := range a.Args {
				if !seen[b] {
					seen[b] = true
					out = append(out, b)
				}
			}
			continue
		}
		if !seen[a] {
			seen[a] = true
			out = append(out, a)
		}
	}
	if len(out) == 0 {
		return c.BoolConst(false)
	}
	if len(out) == 1 {
		return out[0]
	}
	return c.mk("or", KBool, 0, 0, 0, out...)
}

func (c *TermCtx) Ite(cond, a, b *Term) *Term {
	if cond.IsConst() {
		if cond.CU != 0 {
			return a
		}
		return b
	}
	if a == b {
		return a
	}
	if a.K == KBool {
		if a.IsConst() && b.IsConst() {
			if a.CU != 0 {
				return cond
			}
			return c.Not(cond)
		}
		if a.IsConst() {
			if a.CU != 0 {
				return c.Or(cond, b)
			}
			return c.And(c.Not(cond), b)
		}
		if b.IsConst() {
			if b.CU != 0 {
				return c.Or(c.Not(cond), a)
			}
			return c.And(cond, a)
		}
	}
	return c.mk("ite", a.K, a.W, 0, 0, cond, a, b)
}

func (c *TermCtx) Eq(a, b *Term) *Term {
	if a == b {
		return c.BoolConst(true)
	}
	if a.IsConst() && b.IsConst() {
		if a.K == KInt {
			return c.BoolConst(a.CI.Cmp(b.CI) == 0)
		}
		return c.BoolConst(a.CU == b.CU)
	}
	if a.K == KBool {
		if a.IsConst() {
			a, b = b, a
		}
		if b.IsConst() {
			if b.CU != 0 {
				return a
			}
			return c.Not(a)
		}
	}
	// push through ite with constant leaves
	if r := c.distCmp("=", a, b); r != nil {
		return r
	}
	if a.K == KBV {
		if r := c.tableCmp("=", a, b); r != nil {
			return r
		}
	}
	if a.id > b.id {
		a, b = b, a
	}
	return c.mk("=", KBool, 0, 0, 0, a, b)
}

// isIteConstTree reports whether t is an ite tree whose leaves are all constants.
func isIteConstTree(t *Term, depth int) bool {
	if t.IsConst() {
		return true
	}
	if t.Op != "ite" || depth > 6 {
		return false
	}
	return isIteConstTree(t.Args[1], depth+1) && isIteConstTree(t.Args[2], depth+1)
}

// distCmp distributes a comparison over an ite-of-constants tree when the other side is a
// constant, so that e.g. (bvsle (ite c #x..ff (ite d 0 1)) 0) folds to boolean structure.
func (c *TermCtx) distCmp(op string, a, b *Term) *Term {
	if b.IsConst() && a.Op == "ite" && isIteConstTree(a, 0) {
		return c.Ite(a.Args[0], c.cmpAny(op, a.Args[1], b), c.cmpAny(op, a.Args[2], b))
	}
	if a.IsConst() && b.Op == "ite" && isIteConstTree(b, 0) {
		return c.Ite(b.Args[0], c.cmpAny(op, a, b.Args[1]), c.cmpAny(op, a, b.Args[2]))
	}
	return nil
}

func (c *TermCtx) cmpAny(op string, a, b *Term) *Term {
	if op == "=" {
		return c.Eq(a, b)
	}
	if a.K == KInt {
		return c.IntCmp(op, a, b)
	}
	return c.BVCmp(op, a, b)
}

// ---- BV constructors ----

func sext(v uint64, w int) int64 {
	if w >= 64 {
		return int64(v)
	}
	s := uint(64 - w)
	return int64(v<<s) >> s
}

func foldBV(op string, w int, a, b uint64) (uint64, bool) {
	m := mask(w)
	switch op {
	case "bvadd":
		return (a + b) & m, true
	case "bvsub":
		return (a - b) & m, true
	case "bvmul":
		return (a * b) & m, true
	case "bvand":
		return a & b, true
	case "bvor":
		return a | b, true
	case "bvxor":
		return a ^ b, true
	case "bvudiv":
		if b == 0 {
			return m, true
		}
		return a / b, true
	case "bvurem":
		if b == 0 {
			return a, true
		}
		return a % b, true
	case "bvsdiv":
		if b == 0 {
			return 0, false
		}
		sa, sb := sext(a, w), sext(b, w)
		if sb == -1 {
			return uint64(-sa) & m, true
		}
		return uint64(sa/sb) & m, true
	case "bvsrem":
		if b == 0 {
			return 0, false
		}
		sa, sb := sext(a, w), sext(b, w)
		if sb == -1 {
			return 0, true
		}
		return uint64(sa%sb) & m, true
	case "bvshl":
		if b >= uint64(w) {
			return 0, true
		}
		return (a << b) & m, true
	case "bvlshr":
		if b >= uint64(w) {
			return 0, true
		}
		return a >> b, true
	case "bvashr":
		sa := sext(a, w)
		if b >= uint64(w) {
			if sa < 0 {
				return m, true
			}
			return 0, true
		}
		return uint64(sa>>b) & m, true
	}
	return 0, false
}

// BVBin builds (op a b) for arithmetic/bitwise BV operators of equal width.
func (c *TermCtx) BVBin(op string, a, b *Term) *Term {
	w := a.W
	if a.IsConst() && b.IsConst() {
		if v, ok := foldBV(op, w, a.CU, b.CU); ok {
			return c.BVConst(w, v)
		}
	}
	// identities
	switch op {
	case "bvadd", "bvor", "bvxor":
		if a.IsConst() && a.CU == 0 {
			return b
		}
		if b.IsConst() && b.CU == 0 {
			return a
		}
	case "bvsub", "bvshl", "bvlshr", "bvashr":
		if b.IsConst() && b.CU == 0 {
			return a
		}
	case "bvmul":
		if a.IsConst() && a.CU == 1 {
			return b
		}
		if b.IsConst() && b.CU == 1 {
			return a
		}
		if (a.IsConst() && a.CU == 0) || (b.IsConst() && b.CU == 0) {
			return c.BVConst(w, 0)
		}
	case "bvand":
		if (a.IsConst() && a.CU == 0) || (b.IsConst() && b.CU == 0) {
			return c.BVConst(w, 0)
		}
		if a.IsConst() && a.CU == mask(w) {
			return b
		}
		if b.IsConst() && b.CU == mask(w) {
			return a
		}
	}
	// narrow divisions whose operands provably fit in 16 bits (both non-negative, so the signed
	// and unsigned operators agree): the 64-bit divider circuit is what stalls the bit-blaster
	if w > 16 && (op == "bvudiv" || op == "bvurem" || op == "bvsdiv" || op == "bvsrem") {
		if c.rangeMax(a) < 1<<15 && c.rangeMax(b) < 1<<15 {
			nop := map[string]string{"bvudiv": "bvudiv", "bvsdiv": "bvudiv", "bvurem": "bvurem", "bvsrem": "bvurem"}[op]
			na, nb := c.Extract(15, 0, a), c.Extract(15, 0, b)
			if nb.IsConst() && nb.CU == 0 {
				return c.mk(op, KBV, w, 0, 0, a, b)
			}
			var r *Term
			if na.IsConst() && nb.IsConst() {
				v, _ := foldBV(nop, 16, na.CU, nb.CU)
				r = c.BVConst(16, v)
			} else {
				r = c.mk(nop, KBV, 16, 0, 0, na, nb)
			}
			return c.ZExt(r, w)
		}
	}
	return c.mk(op, KBV, w, 0, 0, a, b)
}

func (c *TermCtx) BVNot(a *Term) *Term {
	if a.IsConst() {
		return c.BVConst(a.W, ^a.CU)
	}
	return c.mk("bvnot", KBV, a.W, 0, 0, a)
}
func (c *TermCtx) BVNeg(a *Term) *Term {
	if a.IsConst() {
		return c.BVConst(a.W, -a.CU)
	}
	return c.mk("bvneg", KBV, a.W, 0, 0, a)
}

// BVCmp builds a comparison; op ∈ bvult bvule bvugt bvuge bvslt bvsle bvsgt bvsge.
func (c *TermCtx) BVCmp(op string, a, b *Term) *Term {
	if a.IsConst() && b.IsConst() {
		x, y := a.CU, b.CU
		sx, sy := sext(x, a.W), sext(y, a.W)
		var r bool
		switch op {
		case "bvult":
			r = x < y
		case "bvule":
			r = x <= y
		case "bvugt":
			r = x > y
		case "bvuge":
			r = x >= y
		case "bvslt":
			r = sx < sy
		case "bvsle":
			r = sx <= sy
		case "bvsgt":
			r = sx > sy
		case "bvsge":
			r = sx >= sy
		}
		return c.BoolConst(r)
	}
	if a == b {
		switch op {
		case "bvule", "bvuge", "bvsle", "bvsge":
			return c.BoolConst(true)
		default:
			return c.BoolConst(false)
		}
	}
	if r := c.distCmp(op, a, b); r != nil {
		return r
	}
	if r := c.tableCmp(op, a, b); r != nil {
		return r
	}
	// borrow/carry idioms: (a-b) <=u a  ⇔  b <=u a ;  (a+b) <u a  ⇔  b >u ~a
	switch op {
	case "bvule", "bvugt":
		if a.Op == "bvsub" && a.Args[0] == b {
			return c.BVCmp(op, a.Args[1], b)
		}
	case "bvuge", "bvult":
		if b.Op == "bvsub" && b.Args[0] == a {
			return c.BVCmp(op, a, b.Args[1])
		}
	}
	if (op == "bvult" || op == "bvuge") && a.Op == "bvadd" {
		var other *Term
		if a.Args[0] == b {
			other = a.Args[1]
		} else if a.Args[1] == b {
			other = a.Args[0]
		}
		if other != nil {
			if op == "bvult" {
				return c.BVCmp("bvugt", other, c.BVNot(b))
			}
			return c.BVCmp("bvule", other, c.BVNot(b))
		}
	}
	return c.mk(op, KBool, 0, 0, 0, a, b)
}

func (c *TermCtx) Extract(hi, lo int, a *Term) *Term {
	w := hi - lo + 1
	if lo == 0 && w == a.W {
		return a
	}
	if a.IsConst() {
		return c.BVConst(w, a.CU>>uint(lo))
	}
	if a.Op == "zext" && hi < a.Args[0].W {
		return c.Extract(hi, lo, a.Args[0])
	}
	if a.Op == "zext" && lo >= a.Args[0].W {
		return c.BVConst(w, 0)
	}
	if a.Op == "concat" {
		// concat(hiPart, loPart)
		lw := a.Args[1].W
		if hi < lw {
			return c.Extract(hi, lo, a.Args[1])
		}
		if lo >= lw {
			return c.Extract(hi-lw, lo-lw, a.Args[0])
		}
	}
	if a.Op == "extract" {
		return c.Extract(hi+a.P1, lo+a.P1, a.Args[0])
	}
	return c.mk("extract", KBV, w, hi, lo, a)
}

func (c *TermCtx) ZExt(a *Term, w int) *Term {
	if w == a.W {
		return a
	}
	if w < a.W {
		return c.Extract(w-1, 0, a)
	}
	if a.IsConst() {
		return c.BVConst(w, a.CU)
	}
	if a.Op == "zext" {
		return c.ZExt(a.Args[0], w)
	}
	return c.mk("zext", KBV, w, w-a.W, 0, a)
}

func (c *TermCtx) SExt(a *Term, w int) *Term {
	if w == a.W {
		return a
	}
	if w < a.W {
		return c.Extract(w-1, 0, a)
	}
	if a.IsConst() {
		return c.BVConst(w, uint64(sext(a.CU, a.W)))
	}
	return c.mk("sext", KBV, w, w-a.W, 0, a)
}

func (c *TermCtx) Concat(hi, lo *Term) *Term {
	w := hi.W + lo.W
	if hi.IsConst() && lo.IsConst() && w <= 64 {
		return c.BVConst(w, hi.CU<<uint(lo.W)|lo.CU)
	}
	if hi.IsConst() && hi.CU == 0 && w <= 64 {
		return c.ZExt(lo, w)
	}
	return c.mk("concat", KBV, w, 0, 0, hi, lo)
}

// Table returns lookup(table, idx): the byte of the constant table at a symbolic index.
// The table becomes a define-fun over (_ BitVec 8) in the solver prelude.
func (c *TermCtx) Table(table string, idx *Term) *Term {
	// compose nested constant tables: T2[T1[i]] = T3[i]
	if idx.Op == "table" && idx.W == 8 {
		inner := c.tables[idx.P0]
		comp := make([]byte, 256)
		for i := 0; i < 256; i++ {
			var v byte
			if i < len(inner) {
				v = inner[i]
			}
			if int(v) < len(table) {
				comp[i] = table[v]
			}
		}
		return c.Table(string(comp), idx.Args[0])
	}
	if !idx.IsConst() {
		// range-based simplification: identity or constant on the feasible index range
		m := c.rangeMax(idx)
		if m > 255 {
			m = 255
		}
		ident, constant := true, true
		at := func(i uint64) byte {
			if int(i) < len(table) {
				return table[i]
			}
			return 0
		}
		for i := uint64(0); i <= m; i++ {
			if uint64(at(i)) != i {
				ident = false
			}
			if at(i) != at(0) {
				constant = false
			}
		}
		if ident && idx.W == 8 {
			return idx
		}
		if constant {
			return c.BVConst(8, uint64(at(0)))
		}
	}
	id, ok := c.tableID[table]
	if !ok {
		id = len(c.tables)
		c.tables = append(c.tables, table)
		c.tableID[table] = id
	}
	if idx.IsConst() {
		if idx.CU < uint64(len(table)) {
			return c.BVConst(8, uint64(table[idx.CU]))
		}
		return c.BVConst(8, 0)
	}
	return c.mk("table", KBV, 8, id, 0, idx)
}

// rangeMax is a cheap upper bound of the unsigned value of a BV term.
func (c *TermCtx) rangeMax(t *Term) uint64 {
	switch t.Op {
	case "const":
		return t.CU
	case "bvlshr":
		if t.Args[1].IsConst() && t.Args[1].CU < 64 {
			return c.rangeMax(t.Args[0]) >> t.Args[1].CU
		}
	case "bvand":
		a, b := c.rangeMax(t.Args[0]), c.rangeMax(t.Args[1])
		if a < b {
			return a
		}
		return b
	case "zext":
		return c.rangeMax(t.Args[0])
	case "extract":
		if t.P1 == 0 {
			m := c.rangeMax(t.Args[0])
			if m < mask(t.W) {
				return m
			}
		}
	case "bvadd", "bvor":
		a, b := c.rangeMax(t.Args[0]), c.rangeMax(t.Args[1])
		if a+b >= a && a+b <= mask(t.W) {
			return a + b
		}
	case "bvmul":
		a, b := c.rangeMax(t.Args[0]), c.rangeMax(t.Args[1])
		if a != 0 && b != 0 && a <= mask(t.W)/b {
			return a * b
		}
		if a == 0 || b == 0 {
			return 0
		}
	case "bvudiv", "bvsdiv", "bvurem", "bvsrem":
		a := c.rangeMax(t.Args[0])
		if a < 1<<62 {
			return a
		}
	case "bvshl":
		if t.Args[1].IsConst() && t.Args[1].CU < 64 {
			a := c.rangeMax(t.Args[0])
			if a <= mask(t.W)>>t.Args[1].CU {
				return a << t.Args[1].CU
			}
		}
	case "table":
		tbl := c.tables[t.P0]
		m := c.rangeMax(t.Args[0])
		mx := uint64(0)
		for i := uint64(0); i <= m && i < 256; i++ {
			v := uint64(0)
			if int(i) < len(tbl) {
				v = uint64(tbl[i])
			}
			if v > mx {
				mx = v
			}
		}
		return mx
	case "ite":
		a, b := c.rangeMax(t.Args[1]), c.rangeMax(t.Args[2])
		if a > b {
			return a
		}
		return b
	}
	return mask(t.W)
}

// tableCmp decides a comparison between a table lookup and a constant when it has the same
// truth value on the whole feasible index range.
func (c *TermCtx) tableCmp(op string, a, b *Term) *Term {
	flip := map[string]string{"bvult": "bvugt", "bvule": "bvuge", "bvugt": "bvult", "bvuge": "bvule", "=": "="}
	if a.IsConst() && b.Op == "table" {
		a, b = b, a
		f, ok := flip[op]
		if !ok {
			return nil
		}
		op = f
	}
	if a.Op != "table" || !b.IsConst() {
		return nil
	}
	if _, ok := flip[op]; !ok {
		return nil
	}
	tbl := c.tables[a.P0]
	m := c.rangeMax(a.Args[0])
	if m > 255 {
		m = 255
	}
	var first bool
	for i := uint64(0); i <= m; i++ {
		v := uint64(0)
		if int(i) < len(tbl) {
			v = uint64(tbl[i])
		}
		var r bool
		switch op {
		case "bvult":
			r = v < b.CU
		case "bvule":
			r = v <= b.CU
		case "bvugt":
			r = v > b.CU
		case "bvuge":
			r = v >= b.CU
		case "=":
			r = v == b.CU
		}
		if i == 0 {
			first = r
		} else if r != first {
			return nil
		}
	}
	return c.BoolConst(first)
}

// ---- Int constructors ----

func (c *TermCtx) IntBin(op string, a, b *Term) *Term {
	if a.IsConst() && b.IsConst() {
		r := new(big.Int)
		switch op {
		case "+":
			r.Add(a.CI, b.CI)
		case "-":
			r.Sub(a.CI, b.CI)
		case "*":
			r.Mul(a.CI, b.CI)
		}
		return c.IntConst(r)
	}
	switch op {
	case "+":
		if a.IsConst() && a.CI.Sign() == 0 {
			return b
		}
		if b.IsConst() && b.CI.Sign() == 0 {
			return a
		}
	case "-":
		if b.IsConst() && b.CI.Sign() == 0 {
			return a
		}
		if a == b {
			return c.IntConst64(0)
		}
	case "*":
		if a.IsConst() && a.CI.Cmp(big.NewInt(1)) == 0 {
			return b
		}
		if b.IsConst() && b.CI.Cmp(big.NewInt(1)) == 0 {
			return a
		}
		if (a.IsConst() && a.CI.Sign() == 0) || (b.IsConst() && b.CI.Sign() == 0) {
			return c.IntConst64(0)
		}
	}
	return c.mk(op, KInt, 0, 0, 0, a, b)
}

func (c *TermCtx) IntSum(ts []*Term) *Term {
	if len(ts) == 0 {
		return c.IntConst64(0)
	}
	acc := new(big.Int)
	var sym []*Term
	for _, t := range ts {
		if t.IsConst() {
			acc.Add(acc, t.CI)
		} else {
			sym = append(sym, t)
		}
	}
	if len(sym) == 0 {
		return c.IntConst(acc)
	}
	if acc.Sign() != 0 {
		sym = append(sym, c.IntConst(acc))
	}
	if len(sym) == 1 {
		return sym[0]
	}
	return c.mk("+", KInt, 0, 0, 0, sym...)
}

func (c *TermCtx) IntNeg(a *Term) *Term {
	if a.IsConst() {
		return c.IntConst(new(big.Int).Neg(a.CI))
	}
	if a.Op == "neg" {
		return a.Args[0]
	}
	return c.mk("neg", KInt, 0, 0, 0, a)
}

func (c *TermCtx) IntAbs(a *Term) *Term {
	if a.IsConst() {
		return c.IntConst(new(big.Int).Abs(a.CI))
	}
	if a.Op == "bv2nat" || a.Op == "abs" {
		return a
	}
	return c.mk("abs", KInt, 0, 0, 0, a)
}

// IntCmp: op ∈ < <= > >=
func (c *TermCtx) IntCmp(op string, a, b *Term) *Term {
	if a.IsConst() && b.IsConst() {
		r := a.CI.Cmp(b.CI)
		switch op {
		case "<":
			return c.BoolConst(r < 0)
		case "<=":
			return c.BoolConst(r <= 0)
		case ">":
			return c.BoolConst(r > 0)
		case ">=":
			return c.BoolConst(r >= 0)
		}
	}
	if a == b {
		return c.BoolConst(op == "<=" || op == ">=")
	}
	return c.mk(op, KBool, 0, 0, 0, a, b)
}

func (c *TermCtx) BV2Nat(a *Term) *Term {
	if a.IsConst() {
		return c.IntConst(new(big.Int).SetUint64(a.CU))
	}
	return c.mk("bv2nat", KInt, 0, 0, 0, a)
}

func (c *TermCtx) Int2BV(a *Term, w int) *Term {
	if a.IsConst() {
		m := new(big.Int).Lsh(big.NewInt(1), uint(w))
		r := new(big.Int).Mod(a.CI, m)
		return c.BVConst(w, r.Uint64())
	}
	if a.Op == "bv2nat" && a.Args[0].W == w {
		return a.Args[0]
	}
	return c.mk("int2bv", KBV, w, w, 0, a)
}

// IntDivMod builds (div a k) / (mod a k) for constant positive k.
func (c *TermCtx) IntDiv(a *Term, k *big.Int) *Term {
	if a.IsConst() {
		q, _ := new(big.Int).DivMod(a.CI, k, new(big.Int))
		return c.IntConst(q)
	}
	return c.mk("div", KInt, 0, 0, 0, a, c.IntConst(k))
}
func (c *TermCtx) IntMod(a *Term, k *big.Int) *Term {
	if a.IsConst() {
		_, m := new(big.Int).DivMod(a.CI, k, new(big.Int))
		return c.IntConst(m)
	}
	return c.mk("mod", KInt, 0, 0, 0, a, c.IntConst(k))
}

// ---- printing ----

func bvLit(w int, v uint64) string {
	v &= mask(w)
	if w%4 == 0 {
		return fmt.Sprintf("#x%0*x", w/4, v)
	}
	return fmt.Sprintf("#b%0*b", w, v)
}

func intLit(v *big.Int) string {
	if v.Sign() < 0 {
		return "(- " + new(big.Int).Neg(v).String() + ")"
	}
	return v.String()
}

func sortOf(t *Term) string {
	switch t.K {
	case KBool:
		return "Bool"
	case KInt:
		return "Int"
	}
	return fmt.Sprintf("(_ BitVec %d)", t.W)
}

// head returns the SMT-LIB operator text for a composite term.
func head(t *Term) string {
	switch t.Op {
	case "extract":
		return fmt.Sprintf("(_ extract %d %d)", t.P0, t.P1)
	case "zext":
		return fmt.Sprintf("(_ zero_extend %d)", t.P0)
	case "sext":
		return fmt.Sprintf("(_ sign_extend %d)", t.P0)
	case "int2bv":
		return fmt.Sprintf("(_ int2bv %d)", t.P0)
	case "table":
		return fmt.Sprintf("tbl%d", t.P0)
	case "neg":
		return "-"
	}
	return t.Op
}
