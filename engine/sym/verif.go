package sym

import (
	"encoding/hex"
	"fmt"
	"go/types"
	"math/big"
	"sort"
	"strings"
	"sync"

	"golang.org/x/tools/go/ssa"
)

// TapeEntry is one resolved nondeterministic input (the native twin reads these in order).
type TapeEntry struct {
	Tag  string `json:"tag"`
	Kind string `json:"kind"`
	Val  string `json:"v"` // decimal for ints, hex for bytes, "true"/"false"
}

// Violation is a satisfiable negated assertion (or an uncaught panic) with its witness.
type Violation struct {
	Harness string      `json:"harness"`
	ID      string      `json:"assert"`
	Kind    string      `json:"kind"` // assert-fail | panic | input-write | lock-discipline
	Msg     string      `json:"msg"`
	Pos     string      `json:"at"`
	Finding string      `json:"finding,omitempty"` // known-finding class the witness falls into
	Tape    []TapeEntry `json:"tape"`
	Path    []int       `json:"path"`
}

// ObsValue is an observed value (engine side: evaluated under the path's model).
type ObsValue struct {
	Tag string `json:"tag"`
	Val string `json:"v"`
}

// PathResult summarises one explored path.
type PathResult struct {
	Harness      string
	Decisions    []int
	Steps        int
	End          string
	Violations   []Violation
	KnownHits    []Violation
	Inconclusive []string
	Asserts      int // assertion queries discharged (unsat) on this path
	AssertsTriv  int // assertions that folded to true without a query
	Tape         []TapeEntry
	Observes     []ObsValue
	HasModel     bool
	Funcs        []string
	SampleSMT    string
	lastPanic    *goPanic
}

func (r *PathResult) addViolationRaw(kind, msg string) {
	r.Violations = append(r.Violations, Violation{Kind: kind, ID: kind, Msg: msg})
}

// Shared is state shared by all paths of one harness exploration.
type Shared struct {
	mu          sync.Mutex
	Reached     map[string]bool
	Declared    map[string]bool
	Assumptions map[string]bool
	Forks       map[string]int
}

func (s *Shared) noteFork(site string) {
	s.mu.Lock()
	if s.Forks == nil {
		s.Forks = map[string]int{}
	}
	s.Forks[site]++
	s.mu.Unlock()
}

func (s *Shared) isReached(id string) bool {
	s.mu.Lock()
	defer s.mu.Unlock()
	s.Declared[id] = true
	return s.Reached[id]
}
func (s *Shared) setReached(id string) {
	s.mu.Lock()
	s.Reached[id] = true
	s.mu.Unlock()
}

type obsRec struct {
	tag   string
	kind  string
	terms []*Term
	conc  string
}

func (in *Interp) goString(v Value) string {
	s, ok := v.(Str)
	if !ok {
		panic(in.unsupported("string argument expected"))
	}
	cs, ok := s.concrete()
	if !ok {
		panic(in.unsupported("tag/id strings of verif.* must be concrete"))
	}
	return cs
}

func (in *Interp) newBytes(tag string, n int, cp int) Slice {
	arr := make([]Value, n, cp)
	ts := make([]*Term, n)
	for i := 0; i < n; i++ {
		t := in.tc.NewVar(fmt.Sprintf("%s.%d", tag, i), KBV, 8)
		ts[i] = t
		arr[i] = BV{W: 8, T: t}
	}
	full := arr[:cp]
	for i := n; i < cp; i++ {
		full[i] = BV{W: 8}
	}
	in.tape = append(in.tape, TapeEvent{Tag: tag, Kind: "bytes", Terms: ts})
	return Slice{A: arr}
}

// verifIntrinsic implements the verif.* API (DESIGN.md A.5).
func (in *Interp) verifIntrinsic(fn *ssa.Function, args []Value) (Value, bool) {
	switch fn.Name() {
	case "U8", "U32", "U64":
		w := map[string]int{"U8": 8, "U32": 32, "U64": 64}[fn.Name()]
		tag := in.goString(args[0])
		t := in.tc.NewVar(tag, KBV, w)
		in.tape = append(in.tape, TapeEvent{Tag: tag, Kind: strings.ToLower(fn.Name()), Terms: []*Term{t}})
		return BV{W: w, T: t}, true
	case "Bool", "Fault":
		tag := in.goString(args[0])
		t := in.tc.NewVar(tag, KBool, 0)
		in.tape = append(in.tape, TapeEvent{Tag: tag, Kind: "bool", Terms: []*Term{t}})
		return Bool{T: t}, true
	case "Int":
		tag := in.goString(args[0])
		t := in.tc.NewVar(tag, KInt, 0)
		in.tape = append(in.tape, TapeEvent{Tag: tag, Kind: "int", Terms: []*Term{t}})
		slot := new(Value)
		*slot = Big{T: t}
		return slot, true
	case "Bytes":
		tag := in.goString(args[0])
		n := in.resolveBV(args[1].(BV))
		if n.T != nil {
			panic(in.unsupported("verif.Bytes with symbolic length"))
		}
		return in.newBytes(tag, int(n.C), int(n.C)), true
	case "BytesCap":
		tag := in.goString(args[0])
		n := in.resolveBV(args[1].(BV))
		c := in.resolveBV(args[2].(BV))
		return in.newBytes(tag, int(n.C), int(c.C)), true
	case "Choose":
		tag := in.goString(args[0])
		n := in.resolveBV(args[1].(BV))
		if n.T != nil || n.C == 0 {
			panic(in.unsupported("verif.Choose with symbolic or zero n"))
		}
		tr := in.tc.BoolConst(true)
		ch := 0
		if n.C > 1 {
			ch = in.decide(int(n.C), func(i int) *Term { return tr })
		}
		in.tape = append(in.tape, TapeEvent{Tag: tag, Kind: "choose", Choice: ch})
		return concBV(64, uint64(ch)), true
	case "Thorough":
		return Bool{C: in.cfg.Thorough}, true
	case "Symbolic":
		return Bool{C: true}, true
	case "Assume":
		b := in.resolveBool(args[0].(Bool))
		if b.T == nil {
			if !b.C {
				panic(&pathEnd{"assume false"})
			}
			return nil, true
		}
		if !in.replaying() && in.sol.Check(b.T) == Unsat {
			panic(&pathEnd{"assume infeasible"})
		}
		in.assume(b.T)
		return nil, true
	case "Assert":
		in.doAssert(in.goString(args[0]), args[1].(Bool), "", Bool{})
		return nil, true
	case "AssertExcept":
		in.doAssert(in.goString(args[0]), args[1].(Bool), in.goString(args[2]), args[3].(Bool))
		return nil, true
	case "Reach":
		id := in.goString(args[0])
		b := in.resolveBool(args[1].(Bool))
		if in.cfg.Shared.isReached(id) || in.replaying() {
			return nil, true
		}
		if b.T == nil {
			if b.C {
				in.cfg.Shared.setReached(id)
			}
			return nil, true
		}
		if in.sol.Check(b.T) == Sat {
			in.cfg.Shared.setReached(id)
		}
		return nil, true
	case "And":
		acc := Bool{C: true}
		for _, a := range args[0].(Slice).A {
			acc = in.boolAnd(acc, a.(Bool))
		}
		return acc, true
	case "Or":
		acc := Bool{C: false}
		for _, a := range args[0].(Slice).A {
			acc = in.boolOr(acc, a.(Bool))
		}
		return acc, true
	case "Not":
		return in.boolNot(args[0].(Bool)), true
	case "Implies":
		return in.boolOr(in.boolNot(args[0].(Bool)), args[1].(Bool)), true
	case "Iff":
		return in.equal(args[0], args[1]), true
	case "BytesEq":
		a, b := args[0].(Slice), args[1].(Slice)
		if len(a.A) != len(b.A) {
			return Bool{}, true
		}
		acc := Bool{C: true}
		for i := range a.A {
			acc = in.boolAnd(acc, in.bvEq(a.A[i].(BV), b.A[i].(BV)))
		}
		return acc, true
	case "StrEq":
		return in.strEq(args[0].(Str), args[1].(Str)), true
	case "HasPrefix":
		a, p := args[0].(Slice), args[1].(Slice)
		if len(a.A) < len(p.A) {
			return Bool{}, true
		}
		acc := Bool{C: true}
		for i := range p.A {
			acc = in.boolAnd(acc, in.bvEq(a.A[i].(BV), p.A[i].(BV)))
		}
		return acc, true
	case "IteU64":
		c := in.resolveBool(args[0].(Bool))
		if c.T == nil {
			if c.C {
				return args[1], true
			}
			return args[2], true
		}
		return in.mkBV(in.tc.Ite(c.T, in.bvTerm(args[1].(BV)), in.bvTerm(args[2].(BV)))), true
	case "IteInt":
		c := in.resolveBool(args[0].(Bool))
		a, b := in.bigOf(args[1]), in.bigOf(args[2])
		slot := new(Value)
		if c.T == nil {
			if c.C {
				*slot = a
			} else {
				*slot = b
			}
		} else {
			*slot = Big{T: in.tc.Ite(c.T, a.T, b.T)}
		}
		return slot, true
	case "Try":
		cl := args[0].(*Closure)
		panicked := false
		func() {
			saved := in.cur
			savedDepth := in.depth
			defer func() {
				if r := recover(); r != nil {
					if gp, ok := r.(*goPanic); ok {
						panicked = true
						in.cur = saved
						in.depth = savedDepth
						in.res.lastPanic = gp
						return
					}
					panic(r)
				}
			}()
			in.invoke(cl, nil, cl.Env)
		}()
		return Bool{C: panicked}, true
	case "LastPanic":
		if in.res.lastPanic == nil {
			return Str{}, true
		}
		return strFromGo(in.res.lastPanic.Msg + " at " + in.res.lastPanic.Pos), true
	case "ObserveU64", "ObserveBool", "ObserveBytes", "ObserveInt", "ObserveStr":
		in.observe(fn.Name(), in.goString(args[0]), args[1])
		return nil, true
	case "AllocBound":
		n := in.resolveBV(args[0].(BV))
		in.allocBound = int(sext(n.C, 64))
		return nil, true
	case "WatchWrites":
		in.watchRoots(args[0], in.goString(args[1]))
		return nil, true
	case "GuardFields":
		var fields []string
		for _, f := range args[3].(Slice).A {
			fields = append(fields, in.goString(f))
		}
		in.guardFields(args[0].(Iface), in.goString(args[1]), in.goString(args[2]), fields)
		return nil, true
	case "AtomicFields":
		var fields []string
		for _, f := range args[2].(Slice).A {
			fields = append(fields, in.goString(f))
		}
		in.atomicFields(args[0].(Iface), in.goString(args[1]), fields)
		return nil, true
	case "MonitorOn":
		in.ensureMonitor().on = in.resolveBool(args[0].(Bool)).C
		return nil, true
	case "Spawn":
		in.spawn(args[0].(*Closure), nil, nil)
		return nil, true
	case "Join":
		in.join()
		return nil, true
	case "WatchObject":
		iv := args[0].(Iface)
		if iv.T != nil {
			if pt, ok := iv.T.(*types.Pointer); ok {
				in.watchObject(iv.V, pt.Elem(), in.goString(args[1]), 0)
			}
		}
		return nil, true
	case "WatchOn":
		in.watchOn = in.resolveBool(args[0].(Bool)).C
		return nil, true
	case "Note":
		return nil, true
	}
	return nil, false
}

func (in *Interp) observe(kind, tag string, v Value) {
	rec := obsRec{tag: tag, kind: kind}
	switch kind {
	case "ObserveU64":
		b := in.resolveBV(v.(BV))
		rec.terms = []*Term{in.bvTerm(in.convertBV(b, false, 64))}
	case "ObserveBool":
		rec.terms = []*Term{in.boolTerm(in.resolveBool(v.(Bool)))}
	case "ObserveBytes":
		s := v.(Slice)
		if s.Nil {
			rec.conc = "nil"
		}
		for _, e := range s.A {
			rec.terms = append(rec.terms, in.bvTerm(in.resolveBV(e.(BV))))
		}
	case "ObserveStr":
		for _, e := range v.(Str).B {
			rec.terms = append(rec.terms, in.bvTerm(in.resolveBV(e)))
		}
	case "ObserveInt":
		p := v.(*Value)
		if p == nil {
			rec.conc = "nil"
		} else {
			rec.terms = []*Term{(*p).(Big).T}
		}
	}
	in.obs = append(in.obs, rec)
}

func fmtModelValue(k string, mv ModelValue) string {
	switch k {
	case "bool":
		if mv.U != 0 {
			return "true"
		}
		return "false"
	case "int":
		if mv.I == nil {
			return "0"
		}
		return mv.I.String()
	}
	return fmt.Sprintf("%d", mv.U)
}

// replaying reports whether the path is still following its decision prefix; everything
// before the divergence point was already checked by the parent path.
func (in *Interp) replaying() bool { return len(in.decisions) < len(in.prefix) }

// tapeTerms flattens the tape into the list of terms whose model values are needed.
func (in *Interp) tapeTerms() []*Term {
	var ts []*Term
	for _, e := range in.tape {
		ts = append(ts, e.Terms...)
	}
	return ts
}

func (in *Interp) buildTape(vals []ModelValue) []TapeEntry {
	var out []TapeEntry
	k := 0
	for _, e := range in.tape {
		switch e.Kind {
		case "choose":
			out = append(out, TapeEntry{Tag: e.Tag, Kind: "choose", Val: fmt.Sprintf("%d", e.Choice)})
		case "bytes":
			buf := make([]byte, len(e.Terms))
			for i := range e.Terms {
				buf[i] = byte(vals[k].U)
				k++
			}
			out = append(out, TapeEntry{Tag: e.Tag, Kind: "bytes", Val: hex.EncodeToString(buf)})
		default:
			out = append(out, TapeEntry{Tag: e.Tag, Kind: e.Kind, Val: fmtModelValue(e.Kind, vals[k])})
			k++
		}
	}
	return out
}

func (in *Interp) doAssert(id string, c Bool, finding string, pred Bool) {
	c = in.resolveBool(c)
	if c.T == nil && c.C {
		in.res.AssertsTriv++
		return
	}
	ct := in.boolTerm(c)
	if in.replaying() {
		// already decided by the parent path (the prefix diverges later)
		in.assume(ct)
		return
	}
	neg := in.tc.Not(ct)
	known := finding != "" && in.cfg.Known[finding]
	report := func(extra []*Term, isKnown bool) bool {
		if sat, known := in.enumDecide(extra); known && !sat {
			in.enumHits++
			in.res.Asserts++
			return false
		}
		res, vals := in.sol.CheckAssert(extra, in.tapeTerms())
		switch res {
		case Sat:
			v := Violation{Harness: in.cfg.Harness, ID: id, Kind: "assert-fail", Pos: in.posString(), Finding: finding,
				Tape: in.buildTape(vals), Path: append([]int{}, in.decisions...)}
			if in.res.lastPanic != nil {
				v.Msg = "last caught panic: " + in.res.lastPanic.Msg + " at " + in.res.lastPanic.Pos
			}
			if isKnown {
				in.res.KnownHits = append(in.res.KnownHits, v)
			} else {
				in.res.Violations = append(in.res.Violations, v)
			}
			return true
		case Unknown:
			in.res.Inconclusive = append(in.res.Inconclusive, fmt.Sprintf("assert %s: solver unknown/error at %s %v", id, in.posString(), in.sol.Errors))
		default:
			in.res.Asserts++
			if in.res.SampleSMT == "" && in.cfg.WantSample {
				in.res.SampleSMT = fmt.Sprintf("assert %q at %s: (pc: %d conjuncts) ∧ ¬cond is unsat; cond has %d nodes", id, in.posString(), len(in.pc), ct.size)
			}
		}
		return false
	}
	if known {
		pt := in.boolTerm(in.resolveBool(pred))
		report([]*Term{neg, in.tc.Not(pt)}, false)
		report([]*Term{neg, pt}, true)
	} else {
		report([]*Term{neg}, false)
	}
	// continue under the assumption that the assertion holds
	if c.T == nil {
		panic(&pathEnd{"assertion is concretely false"})
	}
	if in.sol.Check(ct) != Sat {
		panic(&pathEnd{"assertion cannot hold on this path"})
	}
	in.assume(ct)
}

// finishPath extracts a model for trace validation.
func (in *Interp) finishPath(wantModel bool) {
	if !wantModel {
		return
	}
	want := in.tapeTerms()
	nt := len(want)
	for _, o := range in.obs {
		want = append(want, o.terms...)
	}
	res, vals := in.sol.CheckModel(nil, want)
	if res != Sat {
		return
	}
	in.res.HasModel = true
	in.res.Tape = in.buildTape(vals[:nt])
	k := nt
	for _, o := range in.obs {
		var s string
		switch o.kind {
		case "ObserveU64":
			s = fmt.Sprintf("%d", vals[k].U)
			k++
		case "ObserveBool":
			s = fmtModelValue("bool", vals[k])
			k++
		case "ObserveBytes", "ObserveStr":
			if o.conc == "nil" && len(o.terms) == 0 {
				s = ""
			}
			buf := make([]byte, len(o.terms))
			for i := range o.terms {
				buf[i] = byte(vals[k].U)
				k++
			}
			s = hex.EncodeToString(buf)
		case "ObserveInt":
			if o.conc == "nil" {
				s = "nil"
			} else {
				s = fmtModelValue("int", vals[k])
				k++
			}
		}
		in.res.Observes = append(in.res.Observes, ObsValue{Tag: o.tag, Val: s})
	}
}

func (in *Interp) reportUncaughtPanic(gp *goPanic) {
	res, vals := in.sol.CheckModel(nil, in.tapeTerms())
	if res != Sat {
		in.res.Inconclusive = append(in.res.Inconclusive, "panic path without model: "+gp.Msg)
		return
	}
	in.res.Violations = append(in.res.Violations, Violation{Harness: in.cfg.Harness, ID: "no-panic", Kind: "panic",
		Msg: gp.Msg, Pos: gp.Pos, Tape: in.buildTape(vals), Path: append([]int{}, in.decisions...)})
}

func (in *Interp) funcsList() []string {
	var out []string
	for f := range in.funcsSeen {
		if f.Pkg == nil {
			continue
		}
		p := f.Pkg.Pkg.Path()
		if isRepoPkg(p) && !strings.Contains(p, "zz_verif") {
			pos := in.prog.Fset.Position(f.Pos())
			out = append(out, fmt.Sprintf("%s (%s:%d)", f.String(), shortFile(pos.Filename), pos.Line))
		}
	}
	sort.Strings(out)
	return out
}

// bigOf reads a *big.Int argument.
func (in *Interp) bigOf(v Value) Big {
	p, ok := v.(*Value)
	if !ok || p == nil {
		in.goPanic("nil pointer dereference (*big.Int)")
	}
	b, ok := (*p).(Big)
	if !ok {
		panic(in.unsupported(fmt.Sprintf("big.Int slot holds %T", *p)))
	}
	return b
}

var _ = big.NewInt
