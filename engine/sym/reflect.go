package sym

import (
	"fmt"
	"go/types"
	"strings"

	"golang.org/x/tools/go/ssa"
)

// The reflect subset used by check.ForZeroUintFields and the mapstructure.Decode shape used by
// builtInFunctions.createGasConfig (DESIGN.md §3.3). reflect.Value and reflect.Type values are
// engine-level records answered from go/types; they only ever flow through SSA registers.

type rValue struct {
	T types.Type
	V Value
}

type rType struct{ T types.Type }

var reflectKinds = map[types.BasicKind]uint64{
	types.Bool: 1, types.Int: 2, types.Int8: 3, types.Int16: 4, types.Int32: 5, types.Int64: 6,
	types.Uint: 7, types.Uint8: 8, types.Uint16: 9, types.Uint32: 10, types.Uint64: 11, types.Uintptr: 12,
	types.Float32: 13, types.Float64: 14, types.String: 24,
}

func reflectKind(t types.Type) uint64 {
	switch u := t.Underlying().(type) {
	case *types.Basic:
		return reflectKinds[u.Kind()]
	case *types.Array:
		return 17
	case *types.Chan:
		return 18
	case *types.Signature:
		return 19
	case *types.Interface:
		return 20
	case *types.Map:
		return 21
	case *types.Pointer:
		return 22
	case *types.Slice:
		return 23
	case *types.Struct:
		return 25
	}
	return 0
}

func init() {
	intrinsics["reflect.ValueOf"] = func(in *Interp, fn *ssa.Function, a []Value) Value {
		iv := a[0].(Iface)
		if iv.T == nil {
			return rValue{}
		}
		return rValue{T: iv.T, V: iv.V}
	}
	intrinsics["(reflect.Value).IsValid"] = func(in *Interp, fn *ssa.Function, a []Value) Value {
		return Bool{C: a[0].(rValue).T != nil}
	}
	intrinsics["(reflect.Value).Kind"] = func(in *Interp, fn *ssa.Function, a []Value) Value {
		rv := a[0].(rValue)
		if rv.T == nil {
			return concBV(64, 0)
		}
		return concBV(64, reflectKind(rv.T))
	}
	intrinsics["(reflect.Value).IsNil"] = func(in *Interp, fn *ssa.Function, a []Value) Value {
		rv := a[0].(rValue)
		switch x := rv.V.(type) {
		case *Value:
			return Bool{C: x == nil}
		case *MapObj:
			return Bool{C: x == nil}
		case Slice:
			return Bool{C: x.Nil}
		case Iface:
			return Bool{C: x.T == nil}
		case *Closure:
			return Bool{C: x == nil}
		}
		in.goPanic("reflect: call of reflect.Value.IsNil on non-nillable value")
		return nil
	}
	intrinsics["(reflect.Value).NumField"] = func(in *Interp, fn *ssa.Function, a []Value) Value {
		rv := a[0].(rValue)
		st, ok := rv.T.Underlying().(*types.Struct)
		if !ok {
			in.goPanic("reflect: call of reflect.Value.NumField on non-struct Value")
		}
		return concBV(64, uint64(st.NumFields()))
	}
	intrinsics["(reflect.Value).Field"] = func(in *Interp, fn *ssa.Function, a []Value) Value {
		rv := a[0].(rValue)
		st, ok := rv.T.Underlying().(*types.Struct)
		if !ok {
			in.goPanic("reflect: call of reflect.Value.Field on non-struct Value")
		}
		i := in.resolveBV(a[1].(BV))
		if i.T != nil {
			panic(in.unsupported("reflect.Value.Field with symbolic index"))
		}
		if int(i.C) >= st.NumFields() {
			in.goPanic("reflect: Field index out of range")
		}
		return rValue{T: st.Field(int(i.C)).Type(), V: rv.V.(Struct).F[i.C]}
	}
	intrinsics["(reflect.Value).Uint"] = func(in *Interp, fn *ssa.Function, a []Value) Value {
		rv := a[0].(rValue)
		b, ok := rv.V.(BV)
		if !ok {
			in.goPanic("reflect: call of reflect.Value.Uint on non-uint Value")
		}
		return in.convertBV(b, false, 64)
	}
	intrinsics["(reflect.Value).Type"] = func(in *Interp, fn *ssa.Function, a []Value) Value {
		rv := a[0].(rValue)
		rt := in.fmtType("reflect.rtype")
		return Iface{T: types.NewPointer(rt), V: rType{T: rv.T}}
	}
	intrinsics["(*reflect.rtype).Field"] = func(in *Interp, fn *ssa.Function, a []Value) Value {
		rt := a[0].(rType)
		st, ok := rt.T.Underlying().(*types.Struct)
		if !ok {
			in.goPanic("reflect: Field of non-struct type")
		}
		i := in.resolveBV(a[1].(BV))
		sf := in.zero(in.fmtType("reflect.StructField")).(Struct)
		sf.F[0] = strFromGo(st.Field(int(i.C)).Name())
		return sf
	}
	intrinsics["(*reflect.rtype).Name"] = func(in *Interp, fn *ssa.Function, a []Value) Value {
		rt := a[0].(rType)
		if n, ok := rt.T.(*types.Named); ok {
			return strFromGo(n.Obj().Name())
		}
		return strFromGo("")
	}
	intrinsics["github.com/mitchellh/mapstructure.Decode"] = mapstructureDecode
}

// mapstructureDecode models Decode(map[string]uint64, *struct{… uint64 …}): for each struct
// field the map key equal to the field name is used, else a key equal under case folding;
// missing keys leave the field unchanged (zero); unused keys are ignored (ErrorUnused is off
// in Decode's default config). Other shapes are unsupported (inconclusive).
func mapstructureDecode(in *Interp, fn *ssa.Function, a []Value) Value {
	src, dst := a[0].(Iface), a[1].(Iface)
	pt, ok := dst.T.(*types.Pointer)
	if !ok {
		panic(in.unsupported("mapstructure.Decode into non-pointer"))
	}
	st, ok := pt.Elem().Underlying().(*types.Struct)
	if !ok {
		panic(in.unsupported("mapstructure.Decode into non-struct"))
	}
	p := dst.V.(*Value)
	if p == nil {
		panic(in.unsupported("mapstructure.Decode into nil pointer"))
	}
	target := (*p).(Struct)
	if src.T == nil {
		return Iface{} // nil input: nothing to decode, no error
	}
	if _, ok := src.T.Underlying().(*types.Map); !ok {
		panic(in.unsupported("mapstructure.Decode from " + src.T.String()))
	}
	m, _ := src.V.(*MapObj)
	for i := 0; i < st.NumFields(); i++ {
		f := st.Field(i)
		if b, ok := f.Type().Underlying().(*types.Basic); !ok || b.Kind() != types.Uint64 {
			panic(in.unsupported("mapstructure.Decode field of type " + f.Type().String()))
		}
		if m == nil {
			continue
		}
		found := -1
		for k := range m.Keys {
			ks, ok := m.Keys[k].(Str).concrete()
			if !ok {
				panic(in.unsupported("mapstructure.Decode with symbolic map keys"))
			}
			if ks == f.Name() {
				found = k
				break
			}
		}
		if found < 0 {
			for k := range m.Keys {
				ks, _ := m.Keys[k].(Str).concrete()
				if strings.EqualFold(ks, f.Name()) {
					found = k
					break
				}
			}
		}
		if found >= 0 {
			in.onWrite(&target.F[i])
			target.F[i] = m.Vals[found]
		}
	}
	return Iface{}
}

var _ = fmt.Sprintf
