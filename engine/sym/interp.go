package sym

import (
	"fmt"
	"go/constant"
	"go/token"
	"go/types"
	"strings"

	"golang.org/x/tools/go/ssa"
)

// goPanic is a Go-level panic of the interpreted program.
type goPanic struct {
	Msg string
	Pos string
	Val Value
}

// pathEnd terminates the current path (infeasible assumption, end of harness, …).
type pathEnd struct{ Reason string }

// Inconclusive aborts the path because the engine cannot model something.
type Inconclusive struct{ Msg string }

func (e *Inconclusive) Error() string { return e.Msg }

type frame struct {
	fn      *ssa.Function
	env     map[ssa.Value]Value
	block   *ssa.BasicBlock
	prev    *ssa.BasicBlock
	defers  []func()
	result  Value
	caller  *frame
	curInst ssa.Instruction
}

// TapeEvent records one nondeterministic input of the path, in creation order.
type TapeEvent struct {
	Tag    string
	Kind   string // u8 u32 u64 bool bytes int choose
	Terms  []*Term
	Choice int
}

// Interp executes one path.
type Interp struct {
	sum     *sumState // non-nil while a pure callee is being summarised
	sumHits int
	prog    *ssa.Program
	tc      *TermCtx
	sol     *Solver
	globals map[*ssa.Global]*Value
	inited  map[*ssa.Package]bool
	initing int

	prefix    []int
	decisions []int
	newWork   [][]int

	steps          int
	MaxSteps       int
	pc             []*Term
	tape           []TapeEvent
	cur            *frame
	depth          int
	cfg            *Config
	res            *PathResult
	watch          map[*Value]string // write-monitored slots (C13)
	watchOn        bool
	globalsWatched bool
	locks          map[*Value]*lockState
	mon            *lockMonitor
	unknownFz      int
	funcsSeen      map[*ssa.Function]bool
	fmtTypes       map[string]types.Type
	sched          *scheduler
	allocBound     int // upper bound for MakeSlice obligations (-1: off)
	obs            []obsRec
	enumHits       int
	feasHint       func(i int) (bool, bool)
}

func (in *Interp) unsupported(msg string) *Inconclusive {
	pos := ""
	if in.cur != nil && in.cur.curInst != nil {
		pos = in.prog.Fset.Position(in.cur.curInst.Pos()).String()
		if in.cur.fn != nil {
			pos += " in " + in.cur.fn.String()
		}
	}
	return &Inconclusive{Msg: "unsupported: " + msg + " at " + pos}
}

func (in *Interp) posString() string {
	f := in.cur
	for f != nil {
		if f.curInst != nil && f.curInst.Pos().IsValid() {
			p := in.prog.Fset.Position(f.curInst.Pos())
			return fmt.Sprintf("%s:%d", shortFile(p.Filename), p.Line)
		}
		f = f.caller
	}
	return "?"
}

// RepoRoot is the directory of the tree under test (set by the CLI).
var RepoRoot = "/repo/"

// forkSite names the innermost repo/harness source line on the call stack.
func (in *Interp) forkSite() string {
	f := in.cur
	for f != nil {
		if f.curInst != nil && f.curInst.Pos().IsValid() {
			p := in.prog.Fset.Position(f.curInst.Pos())
			if strings.HasPrefix(p.Filename, RepoRoot) {
				return fmt.Sprintf("%s:%d", shortFile(p.Filename), p.Line)
			}
		}
		f = f.caller
	}
	return "?"
}

func shortFile(f string) string {
	f = strings.TrimPrefix(f, RepoRoot)
	f = strings.TrimPrefix(f, "/repo/")
	return f
}

func (in *Interp) goPanic(msg string) {
	panic(&goPanic{Msg: msg, Pos: in.posString()})
}

// ---------- decisions ----------

// decide picks one of n alternatives. cond(i) is the branch condition of alternative i.
// When replaying a prefix no solver call is made. Otherwise every alternative is checked
// for feasibility; the first feasible one is followed and the others are queued.
func (in *Interp) decide(n int, cond func(i int) *Term) int {
	if in.sum != nil {
		return in.sumDecide(n, cond)
	}
	pos := len(in.decisions)
	if pos < len(in.prefix) {
		ch := in.prefix[pos]
		in.decisions = append(in.decisions, ch)
		in.assume(cond(ch))
		return ch
	}
	first := -1
	nw0 := len(in.newWork)
	for i := 0; i < n; i++ {
		c := cond(i)
		if c.IsConst() && c.CU == 0 {
			continue
		}
		// last alternative with none feasible so far must be feasible (pc is satisfiable and the
		// alternatives are exhaustive) – callers guarantee exhaustiveness.
		var r Result
		if in.feasHint != nil {
			if sat, known := in.feasHint(i); known {
				if !sat {
					continue
				}
				r = Sat
			}
		}
		if in.feasHint != nil && r == Sat {
			// decided by the hint
		} else if i == n-1 && first < 0 {
			r = Sat
		} else if sat, known := in.enumDecide([]*Term{c}); known {
			in.enumHits++
			if sat {
				r = Sat
			} else {
				r = Unsat
			}
		} else {
			r = in.sol.Check(c)
		}
		if r == Unknown {
			in.unknownFz++
			r = Sat
		}
		if r == Sat {
			if first < 0 {
				first = i
			} else {
				w := make([]int, pos+1)
				copy(w, in.decisions[:pos])
				w[pos] = i
				in.newWork = append(in.newWork, w)
			}
		}
	}
	if first < 0 {
		panic(&pathEnd{"infeasible"})
	}
	if len(in.newWork) > nw0 && in.cfg.Shared != nil {
		// fork profile: which source location splits paths
		in.cfg.Shared.noteFork(in.forkSite())
	}
	in.decisions = append(in.decisions, first)
	in.assume(cond(first))
	return first
}

func (in *Interp) assume(c *Term) {
	if in.sum != nil {
		in.sumAssume(c)
		return
	}
	if c.IsConst() {
		if c.CU == 0 {
			panic(&pathEnd{"assume false"})
		}
		return
	}
	in.pc = append(in.pc, c)
	in.sol.Assert(c)
	// learn concretisations of the form (= t const)
	if c.Op == "=" {
		a, b := c.Args[0], c.Args[1]
		if b.IsConst() && !a.IsConst() {
			in.tc.subst[a] = b
		} else if a.IsConst() && !b.IsConst() {
			in.tc.subst[b] = a
		}
	}
}

// branch decides a boolean.
func (in *Interp) branch(b Bool) bool {
	b = in.resolveBool(b)
	if b.T == nil {
		return b.C
	}
	ch := in.decide(2, func(i int) *Term {
		if i == 0 {
			return b.T
		}
		return in.tc.Not(b.T)
	})
	return ch == 0
}

// maybePanic forks a panicking path when cond can hold.
func (in *Interp) maybePanic(cond Bool, msg string) {
	cond = in.resolveBool(cond)
	if cond.T == nil {
		if cond.C {
			in.goPanic(msg)
		}
		return
	}
	// alternative 0: no panic; alternative 1: panic
	ch := in.decide(2, func(i int) *Term {
		if i == 0 {
			return in.tc.Not(cond.T)
		}
		return cond.T
	})
	if ch == 1 {
		in.goPanic(msg)
	}
}

// concretize forks over the feasible values lo..hi (inclusive) of v and returns the chosen one.
func (in *Interp) concretize(v BV, lo, hi int) int {
	v = in.resolveBV(v)
	if v.T == nil {
		return int(v.C)
	}
	if in.sum != nil {
		panic(sumAbort{"concretisation inside a summary"})
	}
	n := hi - lo + 1
	if n <= 0 {
		panic(&pathEnd{"infeasible"})
	}
	if !in.replaying() {
		if vals, known := in.enumValues(v.T); known {
			in.enumHits++
			in.feasHint = func(i int) (bool, bool) { return vals[uint64(lo+i)], true }
		}
	}
	ch := in.decide(n, func(i int) *Term {
		return in.tc.Eq(v.T, in.tc.BVConst(v.W, uint64(lo+i)))
	})
	in.feasHint = nil
	return lo + ch
}

// ---------- term/value helpers ----------

func (in *Interp) resolveBV(b BV) BV {
	if b.T != nil {
		if s, ok := in.tc.subst[b.T]; ok {
			b.T = s
		}
		if b.T.IsConst() {
			return BV{W: b.W, C: b.T.CU}
		}
	}
	return b
}

func (in *Interp) resolveBool(b Bool) Bool {
	if b.T != nil {
		if s, ok := in.tc.subst[b.T]; ok {
			b.T = s
		}
		if b.T.IsConst() {
			return Bool{C: b.T.CU != 0}
		}
	}
	return b
}

func (in *Interp) bvTerm(b BV) *Term {
	if b.T != nil {
		return b.T
	}
	return in.tc.BVConst(b.W, b.C)
}

func (in *Interp) boolTerm(b Bool) *Term {
	if b.T != nil {
		return b.T
	}
	return in.tc.BoolConst(b.C)
}

func (in *Interp) mkBV(t *Term) BV {
	if t.IsConst() {
		return BV{W: t.W, C: t.CU}
	}
	return BV{W: t.W, T: t}
}

func (in *Interp) mkBool(t *Term) Bool {
	if t.IsConst() {
		return Bool{C: t.CU != 0}
	}
	return Bool{T: t}
}

func (in *Interp) bvBin(op string, x, y BV) BV {
	x, y = in.resolveBV(x), in.resolveBV(y)
	if x.T == nil && y.T == nil {
		if v, ok := foldBV(op, x.W, x.C, y.C); ok {
			return BV{W: x.W, C: v}
		}
	}
	return in.mkBV(in.tc.BVBin(op, in.bvTerm(x), in.bvTerm(y)))
}

func (in *Interp) bvCmp(op string, x, y BV) Bool {
	x, y = in.resolveBV(x), in.resolveBV(y)
	return in.mkBool(in.tc.BVCmp(op, in.bvTerm(x), in.bvTerm(y)))
}

func (in *Interp) bvEq(x, y BV) Bool {
	x, y = in.resolveBV(x), in.resolveBV(y)
	if x.T == nil && y.T == nil {
		return Bool{C: x.C == y.C}
	}
	return in.mkBool(in.tc.Eq(in.bvTerm(x), in.bvTerm(y)))
}

func (in *Interp) boolNot(b Bool) Bool {
	if b.T == nil {
		return Bool{C: !b.C}
	}
	return in.mkBool(in.tc.Not(b.T))
}

func (in *Interp) boolAnd(a, b Bool) Bool {
	if a.T == nil {
		if !a.C {
			return Bool{}
		}
		return b
	}
	if b.T == nil {
		if !b.C {
			return Bool{}
		}
		return a
	}
	return in.mkBool(in.tc.And(a.T, b.T))
}

func (in *Interp) boolOr(a, b Bool) Bool {
	return in.boolNot(in.boolAnd(in.boolNot(a), in.boolNot(b)))
}

// convertBV converts between integer widths by the signedness of the source type.
func (in *Interp) convertBV(x BV, srcSigned bool, w int) BV {
	x = in.resolveBV(x)
	if x.T == nil {
		if srcSigned {
			return concBV(w, uint64(sext(x.C, x.W)))
		}
		return concBV(w, x.C)
	}
	if srcSigned {
		return in.mkBV(in.tc.SExt(x.T, w))
	}
	return in.mkBV(in.tc.ZExt(x.T, w))
}

// strEq builds the equality of two strings as a Bool (no fork).
func (in *Interp) strEq(a, b Str) Bool {
	if len(a.B) != len(b.B) {
		return Bool{}
	}
	acc := Bool{C: true}
	for i := range a.B {
		acc = in.boolAnd(acc, in.bvEq(a.B[i], b.B[i]))
		if acc.T == nil && !acc.C {
			return acc
		}
	}
	return acc
}

// strLess builds a < b lexicographically.
func (in *Interp) strLess(a, b Str) Bool {
	n := len(a.B)
	if len(b.B) < n {
		n = len(b.B)
	}
	// result = OR_i (prefix equal up to i AND a[i] < b[i]) OR (all n equal AND len(a) < len(b))
	res := Bool{C: len(a.B) < len(b.B)}
	for i := n - 1; i >= 0; i-- {
		lt := in.bvCmp("bvult", a.B[i], b.B[i])
		eq := in.bvEq(a.B[i], b.B[i])
		res = in.boolOr(lt, in.boolAnd(eq, res))
	}
	return res
}

// equal is Go's == on arbitrary values, as a (possibly symbolic) Bool.
func (in *Interp) equal(a, b Value) Bool {
	a, b = force(a), force(b)
	switch x := a.(type) {
	case BV:
		return in.bvEq(x, b.(BV))
	case Bool:
		y := b.(Bool)
		if x.T == nil && y.T == nil {
			return Bool{C: x.C == y.C}
		}
		return in.mkBool(in.tc.Eq(in.boolTerm(x), in.boolTerm(y)))
	case Str:
		return in.strEq(x, b.(Str))
	case *Value:
		y, ok := b.(*Value)
		if !ok {
			return Bool{}
		}
		return Bool{C: x == y}
	case Iface:
		y, ok := b.(Iface)
		if !ok {
			return Bool{}
		}
		if x.T == nil || y.T == nil {
			return Bool{C: x.T == nil && y.T == nil}
		}
		if !types.Identical(x.T, y.T) {
			return Bool{}
		}
		return in.equal(x.V, y.V)
	case Struct:
		y := b.(Struct)
		acc := Bool{C: true}
		for i := range x.F {
			acc = in.boolAnd(acc, in.equal(x.F[i], y.F[i]))
		}
		return acc
	case Array:
		y := b.(Array)
		acc := Bool{C: true}
		for i := range x.E {
			acc = in.boolAnd(acc, in.equal(x.E[i], y.E[i]))
		}
		return acc
	case *Closure:
		y, _ := b.(*Closure)
		return Bool{C: x == y}
	case *MapObj:
		y, _ := b.(*MapObj)
		return Bool{C: x == y}
	case Slice:
		y, _ := b.(Slice)
		return Bool{C: x.Nil && y.Nil}
	case Float:
		return Bool{C: x.F == b.(Float).F}
	case Big:
		y := b.(Big)
		return in.mkBool(in.tc.Eq(x.T, y.T))
	case Opaque:
		return Bool{C: false}
	case nil:
		return Bool{C: b == nil}
	}
	panic(in.unsupported(fmt.Sprintf("equality on %T", a)))
}

// ---------- constants / operands ----------

func (in *Interp) constValue(c *ssa.Const) Value {
	if c.Value == nil {
		return in.zero(c.Type())
	}
	t := c.Type().Underlying()
	if b, ok := t.(*types.Basic); ok {
		switch {
		case b.Info()&types.IsBoolean != 0:
			return Bool{C: constant.BoolVal(c.Value)}
		case b.Info()&types.IsInteger != 0:
			w, signed := intWidth(b)
			if signed {
				v, _ := constant.Int64Val(constant.ToInt(c.Value))
				return concBV(w, uint64(v))
			}
			v, _ := constant.Uint64Val(constant.ToInt(c.Value))
			return concBV(w, v)
		case b.Info()&types.IsString != 0:
			return strFromGo(constant.StringVal(c.Value))
		case b.Info()&types.IsFloat != 0:
			f, _ := constant.Float64Val(c.Value)
			return Float{F: f}
		}
	}
	if _, ok := t.(*types.TypeParam); ok {
		panic(in.unsupported("type-param constant"))
	}
	panic(in.unsupported("constant of type " + c.Type().String()))
}

func (in *Interp) get(fr *frame, v ssa.Value) Value {
	switch x := v.(type) {
	case *ssa.Const:
		return in.constValue(x)
	case *ssa.Global:
		return in.global(x)
	case *ssa.Function:
		return &Closure{Fn: x}
	case *ssa.Builtin:
		return &Closure{Intr: "builtin:" + x.Name()}
	}
	if r, ok := fr.env[v]; ok {
		return r
	}
	panic(in.unsupported("unbound ssa value " + v.Name() + " " + v.String()))
}

// ---------- globals & init ----------

var initAllow = map[string]bool{
	"errors": true, "encoding/hex": true, "strings": true, "bytes": true, "unicode/utf8": true,
	"math/bits": true, "sort": true, "io": true, "unicode": true, "strconv": true, "math": true,
	"internal/bytealg": true, "internal/stringslite": true, "slices": true, "cmp": true,
	"math/big": true, "sync": true, "sync/atomic": true, "fmt": true, "internal/byteorder": true,
	"encoding/binary": true,
}

// noInitRun lists packages whose globals are usable zero-valued without running init.
var noInitRun = map[string]bool{
	"math/big": true, "sync": true, "sync/atomic": true, "fmt": true, "internal/bytealg": true,
}

func isRepoPkg(path string) bool {
	return strings.HasPrefix(path, "github.com/ElrondNetwork/elrond-vm-common")
}

func (in *Interp) global(g *ssa.Global) *Value {
	if p, ok := in.globals[g]; ok {
		return p
	}
	pkg := g.Pkg
	path := pkg.Pkg.Path()
	if !isRepoPkg(path) && !initAllow[path] {
		panic(in.unsupported("global of un-modelled package: " + g.String()))
	}
	slot := new(Value)
	*slot = in.zero(g.Type().(*types.Pointer).Elem())
	in.globals[g] = slot
	if !in.inited[pkg] {
		in.inited[pkg] = true
		if !noInitRun[path] {
			if initFn := pkg.Func("init"); initFn != nil {
				in.initing++
				saveCur := in.cur
				in.run(initFn, nil, nil)
				in.cur = saveCur
				in.initing--
			}
		}
	}
	return in.globals[g]
}

// ---------- running functions ----------

func (in *Interp) callFn(fn *ssa.Function, args []Value, env []Value) Value {
	name := fn.String()
	if intr, ok := intrinsics[name]; ok {
		for i := range args {
			args[i] = force(args[i])
		}
		return intr(in, fn, args)
	}
	if fn.Pkg != nil {
		path := fn.Pkg.Pkg.Path()
		if strings.HasSuffix(path, "/zz_verif/verif") {
			for i := range args {
				args[i] = force(args[i])
			}
			if r, ok := in.verifIntrinsic(fn, args); ok {
				return r
			}
		}
		if in.initing > 0 && fn.Name() == "init" && fn.Synthetic != "" && in.cur != nil && in.cur.fn.Name() == "init" && in.cur.fn.Synthetic != "" && in.cur.fn.Pkg != fn.Pkg {
			return nil // dependency package initialiser: run lazily on first global access
		}
		if noopPkg(path) {
			return in.zeroResults(fn)
		}
	}
	if len(fn.Blocks) == 0 {
		panic(in.unsupported("call to body-less function " + name))
	}
	if v, ok := in.trySummarise(fn, args, env); ok {
		return v
	}
	return in.run(fn, args, env)
}

func noopPkg(path string) bool {
	return strings.HasPrefix(path, "github.com/ElrondNetwork/elrond-go-logger") ||
		strings.HasPrefix(path, "github.com/gogo/protobuf/proto") ||
		strings.HasPrefix(path, "github.com/golang/protobuf/proto")
}

func (in *Interp) zeroResults(fn *ssa.Function) Value {
	res := fn.Signature.Results()
	switch res.Len() {
	case 0:
		return nil
	case 1:
		return in.zeroNoop(res.At(0).Type())
	}
	tv := make(Tuple, res.Len())
	for i := range tv {
		tv[i] = in.zeroNoop(res.At(i).Type())
	}
	return tv
}

// zeroNoop returns a usable placeholder for results of no-op packages: interfaces get a typed
// nil receiver so that later invokes resolve into the same no-op package.
func (in *Interp) zeroNoop(t types.Type) Value {
	if it, ok := t.Underlying().(*types.Interface); ok && it.NumMethods() > 0 {
		if n, ok := t.(*types.Named); ok && n.Obj().Pkg() != nil {
			// find a concrete type in that package implementing the interface
			if p := in.prog.ImportedPackage(n.Obj().Pkg().Path()); p != nil {
				for _, m := range p.Members {
					if ty, ok := m.(*ssa.Type); ok {
						pt := types.NewPointer(ty.Type())
						if types.Implements(pt, it) {
							return Iface{T: pt, V: (*Value)(nil)}
						}
					}
				}
			}
		}
	}
	return in.zero(t)
}

func (in *Interp) run(fn *ssa.Function, args []Value, env []Value) (ret Value) {
	in.depth++
	if in.depth > 400 {
		panic(&Inconclusive{Msg: "call depth exceeded in " + fn.String()})
	}
	if in.funcsSeen != nil {
		in.funcsSeen[fn] = true
	}
	fr := &frame{fn: fn, env: make(map[ssa.Value]Value, 16), caller: in.cur}
	for i, p := range fn.Params {
		fr.env[p] = args[i]
	}
	for i, fv := range fn.FreeVars {
		fr.env[fv] = env[i]
	}
	saved := in.cur
	in.cur = fr
	defer func() {
		in.depth--
		if r := recover(); r != nil {
			if _, ok := r.(*goPanic); ok {
				// run deferred calls while unwinding
				in.cur = fr
				in.runDefers(fr)
			}
			in.cur = saved
			panic(r)
		}
		in.cur = saved
	}()
	fr.block = fn.Blocks[0]
	for {
		next := in.runBlock(fr)
		if next == nil {
			return fr.result
		}
		fr.prev = fr.block
		fr.block = next
	}
}

func (in *Interp) runDefers(fr *frame) {
	for len(fr.defers) > 0 {
		d := fr.defers[len(fr.defers)-1]
		fr.defers = fr.defers[:len(fr.defers)-1]
		d()
	}
}

func (in *Interp) runBlock(fr *frame) *ssa.BasicBlock {
	for _, instr := range fr.block.Instrs {
		in.steps++
		if in.steps > in.MaxSteps {
			panic(&Inconclusive{Msg: fmt.Sprintf("instruction budget (%d) exceeded in %s", in.MaxSteps, fr.fn)})
		}
		fr.curInst = instr
		switch x := instr.(type) {
		case *ssa.DebugRef:
		case *ssa.UnOp:
			fr.env[x] = in.unop(fr, x)
		case *ssa.BinOp:
			fr.env[x] = in.binop(x.Op, x.X.Type(), in.get(fr, x.X), in.get(fr, x.Y), x.Y.Type())
		case *ssa.Call:
			fr.env[x] = in.callCommon(fr, x.Common())
			in.cur = fr
		case *ssa.ChangeInterface:
			fr.env[x] = in.get(fr, x.X)
		case *ssa.ChangeType:
			fr.env[x] = in.get(fr, x.X)
		case *ssa.Convert:
			fr.env[x] = in.convert(x.X.Type(), x.Type(), in.get(fr, x.X))
		case *ssa.MakeInterface:
			fr.env[x] = Iface{T: x.X.Type(), V: copyVal(in.get(fr, x.X))}
		case *ssa.Extract:
			fr.env[x] = in.get(fr, x.Tuple).(Tuple)[x.Index]
		case *ssa.Slice:
			fr.env[x] = in.sliceOp(fr, x)
		case *ssa.Return:
			switch len(x.Results) {
			case 0:
			case 1:
				fr.result = in.get(fr, x.Results[0])
			default:
				tv := make(Tuple, len(x.Results))
				for i, r := range x.Results {
					tv[i] = in.get(fr, r)
				}
				fr.result = tv
			}
			return nil
		case *ssa.RunDefers:
			in.runDefers(fr)
			in.cur = fr
		case *ssa.Panic:
			v := in.get(fr, x.X)
			msg := "panic"
			if iv, ok := v.(Iface); ok {
				if s, ok := iv.V.(Str); ok {
					if cs, ok := s.concrete(); ok {
						msg = "panic: " + cs
					}
				}
			}
			panic(&goPanic{Msg: msg, Pos: in.posString(), Val: v})
		case *ssa.Store:
			p := in.get(fr, x.Addr).(*Value)
			if p == nil {
				in.goPanic("nil pointer dereference (store)")
			}
			in.onWrite(p)
			storeInto(p, copyVal(in.get(fr, x.Val)))
		case *ssa.If:
			if in.branch(in.get(fr, x.Cond).(Bool)) {
				return fr.block.Succs[0]
			}
			return fr.block.Succs[1]
		case *ssa.Jump:
			return fr.block.Succs[0]
		case *ssa.Defer:
			fn, args, env := in.prepareCall(fr, x.Common())
			fr.defers = append(fr.defers, func() { in.invoke(fn, args, env) })
		case *ssa.Go:
			fn, args, env := in.prepareCall(fr, x.Common())
			in.spawn(fn, args, env)
		case *ssa.MapUpdate:
			m := in.get(fr, x.Map).(*MapObj)
			if m == nil {
				in.goPanic("assignment to entry in nil map")
			}
			in.mapUpdate(m, in.get(fr, x.Key), copyVal(in.get(fr, x.Value)))
		case *ssa.Lookup:
			fr.env[x] = in.lookup(fr, x)
		case *ssa.Range:
			fr.env[x] = in.rangeOp(in.get(fr, x.X))
		case *ssa.Next:
			fr.env[x] = in.next(x, in.get(fr, x.Iter).(*rangeIter))
		case *ssa.TypeAssert:
			fr.env[x] = in.typeAssert(x, in.get(fr, x.X).(Iface))
		case *ssa.MakeClosure:
			b := make([]Value, len(x.Bindings))
			for i, bv := range x.Bindings {
				b[i] = in.get(fr, bv)
			}
			fr.env[x] = &Closure{Fn: x.Fn.(*ssa.Function), Env: b}
		case *ssa.MakeMap:
			fr.env[x] = &MapObj{KT: x.Type().Underlying().(*types.Map).Key()}
		case *ssa.MakeSlice:
			fr.env[x] = in.makeSlice(fr, x)
		case *ssa.Alloc:
			slot := new(Value)
			*slot = in.zero(x.Type().(*types.Pointer).Elem())
			fr.env[x] = slot
		case *ssa.FieldAddr:
			p := in.get(fr, x.X).(*Value)
			if p == nil {
				in.goPanic("nil pointer dereference (field)")
			}
			st, ok := (*p).(Struct)
			if !ok {
				panic(in.unsupported(fmt.Sprintf("FieldAddr on %T (%s)", *p, x.X.Type())))
			}
			fr.env[x] = &st.F[x.Field]
		case *ssa.Field:
			fr.env[x] = copyVal(in.get(fr, x.X).(Struct).F[x.Field])
		case *ssa.IndexAddr:
			fr.env[x] = in.indexAddr(fr, x)
		case *ssa.Index:
			fr.env[x] = in.index(fr, x)
		case *ssa.Phi:
			for i, pred := range fr.block.Preds {
				if pred == fr.prev {
					fr.env[x] = in.get(fr, x.Edges[i])
					break
				}
			}
		case *ssa.SliceToArrayPointer:
			panic(in.unsupported("SliceToArrayPointer"))
		default:
			panic(in.unsupported(fmt.Sprintf("instruction %T", instr)))
		}
	}
	panic(in.unsupported("block without terminator"))
}

// ---------- calls ----------

func (in *Interp) prepareCall(fr *frame, c *ssa.CallCommon) (*Closure, []Value, []Value) {
	var args []Value
	var cl *Closure
	if c.IsInvoke() {
		recv := in.get(fr, c.Value).(Iface)
		if recv.T == nil {
			in.goPanic("nil pointer dereference (method call on nil interface " + c.Method.Name() + ")")
		}
		fn := in.prog.LookupMethod(recv.T, c.Method.Pkg(), c.Method.Name())
		if fn == nil {
			panic(in.unsupported("method not found: " + recv.T.String() + "." + c.Method.Name()))
		}
		cl = &Closure{Fn: fn}
		args = append(args, recv.V)
	} else {
		v := in.get(fr, c.Value)
		var ok bool
		cl, ok = v.(*Closure)
		if !ok || cl == nil {
			in.goPanic("call of nil function")
		}
	}
	for _, a := range c.Args {
		args = append(args, copyVal(in.get(fr, a)))
	}
	return cl, args, cl.Env
}

func (in *Interp) callCommon(fr *frame, c *ssa.CallCommon) Value {
	cl, args, env := in.prepareCall(fr, c)
	return in.invoke(cl, args, env)
}

func (in *Interp) invoke(cl *Closure, args []Value, env []Value) Value {
	if cl.Intr != "" {
		return in.builtin(cl.Intr, args)
	}
	if len(cl.Bound) > 0 {
		args = append(append([]Value{}, cl.Bound...), args...)
	}
	return in.callFn(cl.Fn, args, env)
}

func (in *Interp) builtin(name string, args []Value) Value {
	for i := range args {
		args[i] = force(args[i])
	}
	switch name {
	case "builtin:len":
		switch x := args[0].(type) {
		case Str:
			return concBV(64, uint64(len(x.B)))
		case Slice:
			return concBV(64, uint64(len(x.A)))
		case *MapObj:
			if x == nil {
				return concBV(64, 0)
			}
			return in.mapLen(x)
		case Array:
			return concBV(64, uint64(len(x.E)))
		case *Value:
			if x == nil {
				return concBV(64, 0)
			}
			return concBV(64, uint64(len((*x).(Array).E)))
		}
	case "builtin:cap":
		switch x := args[0].(type) {
		case Slice:
			return concBV(64, uint64(cap(x.A)))
		case Array:
			return concBV(64, uint64(len(x.E)))
		}
	case "builtin:append":
		return in.appendOp(args[0].(Slice), args[1])
	case "builtin:copy":
		dst := args[0].(Slice)
		var n int
		switch src := args[1].(type) {
		case Slice:
			n = len(dst.A)
			if len(src.A) < n {
				n = len(src.A)
			}
			tmp := make([]Value, n)
			copy(tmp, src.A[:n])
			for i := 0; i < n; i++ {
				in.onWrite(&dst.A[i])
				dst.A[i] = copyVal(tmp[i])
			}
		case Str:
			n = len(dst.A)
			if len(src.B) < n {
				n = len(src.B)
			}
			for i := 0; i < n; i++ {
				in.onWrite(&dst.A[i])
				dst.A[i] = src.B[i]
			}
		}
		return concBV(64, uint64(n))
	case "builtin:delete":
		m := args[0].(*MapObj)
		if m != nil {
			in.mapDelete(m, args[1])
		}
		return nil
	case "builtin:print", "builtin:println":
		return nil
	case "builtin:panic":
		panic(&goPanic{Msg: "panic", Pos: in.posString(), Val: args[0]})
	case "builtin:min", "builtin:max":
		x, y := args[0].(BV), args[1].(BV)
		// only concrete
		if x.T == nil && y.T == nil {
			if (name == "builtin:min") == (sext(x.C, x.W) < sext(y.C, y.W)) {
				return x
			}
			return y
		}
	}
	panic(in.unsupported("builtin " + name + fmt.Sprintf(" on %T", args[0])))
}

// ---------- operators ----------

func (in *Interp) unop(fr *frame, x *ssa.UnOp) Value {
	v := in.get(fr, x.X)
	switch x.Op {
	case token.MUL:
		if se, ok := v.(*symElem); ok {
			return in.loadSymElem(se)
		}
		p := v.(*Value)
		if p == nil {
			in.goPanic("nil pointer dereference (load)")
		}
		in.onRead(p)
		return copyVal(*p)
	case token.NOT:
		return in.boolNot(v.(Bool))
	case token.SUB:
		switch b := v.(type) {
		case BV:
			b = in.resolveBV(b)
			if b.T == nil {
				return concBV(b.W, -b.C)
			}
			return in.mkBV(in.tc.BVNeg(b.T))
		case Float:
			return Float{F: -b.F}
		}
	case token.XOR:
		b := in.resolveBV(v.(BV))
		if b.T == nil {
			return concBV(b.W, ^b.C)
		}
		return in.mkBV(in.tc.BVNot(b.T))
	}
	panic(in.unsupported("unop " + x.Op.String()))
}

func (in *Interp) binop(op token.Token, xt types.Type, x, y Value, yt types.Type) Value {
	x, y = force(x), force(y)
	switch a := x.(type) {
	case BV:
		b, ok := y.(BV)
		if !ok {
			break
		}
		signed := isSigned(xt)
		switch op {
		case token.ADD:
			return in.bvBin("bvadd", a, b)
		case token.SUB:
			return in.bvBin("bvsub", a, b)
		case token.MUL:
			return in.bvBin("bvmul", a, b)
		case token.QUO, token.REM:
			in.maybePanic(in.bvEq(b, BV{W: b.W}), "integer divide by zero")
			o := map[token.Token][2]string{token.QUO: {"bvudiv", "bvsdiv"}, token.REM: {"bvurem", "bvsrem"}}[op]
			if signed {
				return in.bvBin(o[1], a, b)
			}
			return in.bvBin(o[0], a, b)
		case token.AND:
			return in.bvBin("bvand", a, b)
		case token.OR:
			return in.bvBin("bvor", a, b)
		case token.XOR:
			return in.bvBin("bvxor", a, b)
		case token.AND_NOT:
			nb := in.resolveBV(b)
			if nb.T == nil {
				nb = concBV(nb.W, ^nb.C)
			} else {
				nb = in.mkBV(in.tc.BVNot(nb.T))
			}
			return in.bvBin("bvand", a, nb)
		case token.SHL, token.SHR:
			cnt := in.resolveBV(b)
			if isSigned(yt) {
				in.maybePanic(in.bvCmp("bvslt", cnt, BV{W: cnt.W}), "negative shift amount")
			}
			// bring the count to the operand width, saturating
			var c BV
			if cnt.W == a.W {
				c = cnt
			} else if cnt.W < a.W {
				c = in.convertBV(cnt, false, a.W)
			} else {
				big := in.bvCmp("bvuge", cnt, concBV(cnt.W, uint64(a.W)))
				tr := in.convertBV(cnt, false, a.W)
				if big.T == nil {
					if big.C {
						c = concBV(a.W, uint64(a.W))
					} else {
						c = tr
					}
				} else {
					c = in.mkBV(in.tc.Ite(big.T, in.tc.BVConst(a.W, uint64(a.W)), in.bvTerm(tr)))
				}
			}
			if op == token.SHL {
				return in.bvBin("bvshl", a, c)
			}
			if signed {
				return in.bvBin("bvashr", a, c)
			}
			return in.bvBin("bvlshr", a, c)
		case token.EQL:
			return in.bvEq(a, b)
		case token.NEQ:
			return in.boolNot(in.bvEq(a, b))
		case token.LSS, token.LEQ, token.GTR, token.GEQ:
			names := map[token.Token][2]string{
				token.LSS: {"bvult", "bvslt"}, token.LEQ: {"bvule", "bvsle"},
				token.GTR: {"bvugt", "bvsgt"}, token.GEQ: {"bvuge", "bvsge"}}[op]
			if signed {
				return in.bvCmp(names[1], a, b)
			}
			return in.bvCmp(names[0], a, b)
		}
	case Str:
		b := y.(Str)
		switch op {
		case token.ADD:
			r := make([]BV, 0, len(a.B)+len(b.B))
			r = append(r, a.B...)
			r = append(r, b.B...)
			return Str{B: r}
		case token.EQL:
			return in.strEq(a, b)
		case token.NEQ:
			return in.boolNot(in.strEq(a, b))
		case token.LSS:
			return in.strLess(a, b)
		case token.GTR:
			return in.strLess(b, a)
		case token.LEQ:
			return in.boolNot(in.strLess(b, a))
		case token.GEQ:
			return in.boolNot(in.strLess(a, b))
		}
	case Bool:
		b := y.(Bool)
		switch op {
		case token.EQL:
			return in.equal(a, b)
		case token.NEQ:
			return in.boolNot(in.equal(a, b))
		case token.AND:
			return in.boolAnd(a, b)
		case token.OR:
			return in.boolOr(a, b)
		}
	case Float:
		b := y.(Float)
		switch op {
		case token.ADD:
			return Float{a.F + b.F}
		case token.SUB:
			return Float{a.F - b.F}
		case token.MUL:
			return Float{a.F * b.F}
		case token.QUO:
			return Float{a.F / b.F}
		case token.EQL:
			return Bool{C: a.F == b.F}
		case token.NEQ:
			return Bool{C: a.F != b.F}
		case token.LSS:
			return Bool{C: a.F < b.F}
		case token.LEQ:
			return Bool{C: a.F <= b.F}
		case token.GTR:
			return Bool{C: a.F > b.F}
		case token.GEQ:
			return Bool{C: a.F >= b.F}
		}
	}
	switch op {
	case token.EQL:
		return in.equal(x, y)
	case token.NEQ:
		return in.boolNot(in.equal(x, y))
	}
	panic(in.unsupported(fmt.Sprintf("binop %s on %T", op, x)))
}

func (in *Interp) convert(src, dst types.Type, v Value) Value {
	v = force(v)
	su, du := src.Underlying(), dst.Underlying()
	switch d := du.(type) {
	case *types.Basic:
		switch {
		case d.Info()&types.IsInteger != 0:
			w, _ := intWidth(d)
			switch x := v.(type) {
			case BV:
				return in.convertBV(x, isSigned(src), w)
			case Float:
				return concBV(w, uint64(int64(x.F)))
			}
		case d.Info()&types.IsString != 0:
			switch x := v.(type) {
			case Str:
				return x
			case Slice:
				b := make([]BV, len(x.A))
				for i := range x.A {
					b[i] = x.A[i].(BV)
				}
				return Str{B: b}
			case BV:
				x = in.resolveBV(x)
				if x.T == nil {
					return strFromGo(string(rune(x.C)))
				}
			}
		case d.Info()&types.IsFloat != 0:
			switch x := v.(type) {
			case Float:
				return x
			case BV:
				x = in.resolveBV(x)
				if x.T == nil {
					if isSigned(src) {
						return Float{F: float64(sext(x.C, x.W))}
					}
					return Float{F: float64(x.C)}
				}
			}
		case d.Kind() == types.UnsafePointer:
			return v
		}
	case *types.Slice:
		if s, ok := v.(Str); ok {
			// []byte(string): fresh backing array. gc gives cap==len for constants and a
			// size-class round-up otherwise; spare capacity is private to the new slice.
			n := len(s.B)
			_, isConst := s.concrete()
			c := n
			if !isConst {
				c = roundupsize(n)
			}
			if eb, ok := d.Elem().Underlying().(*types.Basic); ok && eb.Kind() != types.Uint8 && eb.Kind() != types.Byte {
				panic(in.unsupported("[]rune(string)"))
			}
			arr := make([]Value, n, c)
			for i := range arr {
				arr[i] = s.B[i]
			}
			full := arr[:c]
			for i := n; i < c; i++ {
				full[i] = BV{W: 8}
			}
			return Slice{A: arr}
		}
	case *types.Pointer:
		return v
	}
	_ = su
	panic(in.unsupported(fmt.Sprintf("convert %s -> %s (%T)", src, dst, v)))
}

var sizeClasses = []int{0, 8, 16, 24, 32, 48, 64, 80, 96, 112, 128, 144, 160, 176, 192, 208, 224, 240, 256, 288, 320, 352, 384, 416, 448, 480, 512, 576, 640, 704, 768, 896, 1024, 1152, 1280, 1408, 1536, 1792, 2048, 2304, 2688, 3072, 3200, 3456, 4096, 4864, 5376, 6144, 6528, 6784, 6912, 8192}

func roundupsize(n int) int {
	for _, c := range sizeClasses {
		if c >= n {
			return c
		}
	}
	return (n + 8191) / 8192 * 8192
}

func elemSize(v Value) int {
	switch x := v.(type) {
	case BV:
		return x.W / 8
	case Bool:
		return 1
	case Str:
		return 16
	case Slice, *LazySlice:
		return 24
	case Iface:
		return 16
	case Struct:
		n := 0
		for _, f := range x.F {
			n += elemSize(f)
		}
		if n == 0 {
			n = 1
		}
		return n
	}
	return 8
}

// appendOp implements append(s, t...) with gc-like capacity growth.
func (in *Interp) appendOp(s Slice, t Value) Slice {
	var add []Value
	switch x := t.(type) {
	case Slice:
		add = x.A
	case Str:
		add = make([]Value, len(x.B))
		for i := range x.B {
			add[i] = x.B[i]
		}
	}
	if len(add) == 0 {
		return s
	}
	n := len(s.A) + len(add)
	if n <= cap(s.A) {
		r := s.A[:n]
		for i := len(s.A); i < n; i++ {
			in.onWrite(&r[i])
			r[i] = copyVal(add[i-len(s.A)])
		}
		return Slice{A: r}
	}
	// grow
	oldCap := cap(s.A)
	newCap := oldCap
	doubled := newCap + newCap
	if n > doubled {
		newCap = n
	} else if oldCap < 256 {
		newCap = doubled
	} else {
		for newCap < n {
			newCap += (newCap + 3*256) / 4
		}
	}
	es := elemSize(add[0])
	newCap = roundupsize(newCap*es) / es
	if newCap < n {
		newCap = n
	}
	arr := make([]Value, n, newCap)
	for i := range s.A {
		arr[i] = copyVal(s.A[i])
	}
	for i := range add {
		arr[len(s.A)+i] = copyVal(add[i])
	}
	// zero the spare capacity
	full := arr[:newCap]
	var z Value
	if len(add) > 0 {
		z = zeroLike(add[0])
	}
	for i := n; i < newCap; i++ {
		full[i] = z
	}
	return Slice{A: arr}
}

func zeroLike(v Value) Value {
	switch x := v.(type) {
	case BV:
		return BV{W: x.W}
	case Bool:
		return Bool{}
	case Str:
		return Str{}
	case Slice, *LazySlice:
		return Slice{Nil: true}
	case *Value:
		return (*Value)(nil)
	case Iface:
		return Iface{}
	case *MapObj:
		return (*MapObj)(nil)
	case *Closure:
		return (*Closure)(nil)
	case Struct:
		f := make([]Value, len(x.F))
		for i := range f {
			f[i] = zeroLike(x.F[i])
		}
		return Struct{F: f}
	case Array:
		e := make([]Value, len(x.E))
		for i := range e {
			e[i] = zeroLike(x.E[i])
		}
		return Array{E: e}
	}
	return v
}

func (in *Interp) makeSlice(fr *frame, x *ssa.MakeSlice) Value {
	lv := in.resolveBV(in.get(fr, x.Len).(BV))
	cv := in.resolveBV(in.get(fr, x.Cap).(BV))
	et := x.Type().Underlying().(*types.Slice).Elem()
	ez := in.zero(et)
	es := elemSize(ez)
	maxLen := uint64(1<<47) / uint64(es)
	n := 0
	if lv.T == nil {
		if sext(lv.C, lv.W) < 0 || lv.C > maxLen {
			in.goPanic("makeslice: len out of range")
		}
		n = int(lv.C)
	} else {
		// obligation 1: run-time panic (len out of range)
		in.maybePanic(in.bvCmp("bvugt", lv, concBV(64, maxLen)), "makeslice: len out of range")
		// obligation 2: allocation bounded by the harness-declared input size
		bound := in.allocBound
		if bound < 0 {
			bound = 64
		}
		in.maybePanic(in.bvCmp("bvugt", lv, concBV(64, uint64(bound))), "makeslice: allocation exceeds input-size bound")
		n = in.concretize(lv, 0, bound)
	}
	c := n
	if cv.T == nil {
		if sext(cv.C, cv.W) < 0 || cv.C > maxLen {
			in.goPanic("makeslice: cap out of range")
		}
		if int(cv.C) > c {
			c = int(cv.C)
		}
		if int(cv.C) < n {
			in.goPanic("makeslice: cap out of range")
		}
	} else if cv.T != lv.T {
		bound := in.allocBound
		if bound < 0 {
			bound = 64
		}
		in.maybePanic(in.bvCmp("bvugt", cv, concBV(64, maxLen)), "makeslice: cap out of range")
		in.maybePanic(in.bvCmp("bvugt", cv, concBV(64, uint64(bound))), "makeslice: allocation exceeds input-size bound")
		c = in.concretize(cv, 0, bound)
		if c < n {
			in.goPanic("makeslice: cap out of range")
		}
	}
	if c > 1<<20 {
		panic(&Inconclusive{Msg: "concrete allocation too large for the engine"})
	}
	arr := make([]Value, c)
	for i := range arr {
		arr[i] = copyVal(ez)
	}
	return Slice{A: arr[:n]}
}

func (in *Interp) sliceOp(fr *frame, x *ssa.Slice) Value {
	v := force(in.get(fr, x.X))
	var length, capacity int
	switch s := v.(type) {
	case Str:
		length, capacity = len(s.B), len(s.B)
	case Slice:
		length, capacity = len(s.A), cap(s.A)
	case *Value:
		if s == nil {
			in.goPanic("nil pointer dereference (slice of nil array pointer)")
		}
		length = len((*s).(Array).E)
		capacity = length
	}
	bound := func(op ssa.Value, def int, lo, hi int) int {
		if op == nil {
			return def
		}
		b := in.resolveBV(in.get(fr, op).(BV))
		if b.T == nil {
			iv := sext(b.C, b.W)
			if iv < int64(lo) || iv > int64(hi) {
				in.goPanic(fmt.Sprintf("slice bounds out of range [%d] with range %d..%d", iv, lo, hi))
			}
			return int(iv)
		}
		oob := in.boolOr(in.bvCmp("bvugt", b, concBV(b.W, uint64(hi))), in.bvCmp("bvult", b, concBV(b.W, uint64(lo))))
		in.maybePanic(oob, "slice bounds out of range")
		return in.concretize(b, lo, hi)
	}
	maxIdx := capacity
	if _, isStr := v.(Str); isStr {
		maxIdx = length
	}
	var lo, hi, mx int
	// evaluate in Go's check order: max, high, low
	mx = bound(x.Max, capacity, 0, capacity)
	if x.Max != nil {
		maxIdx = mx
	}
	hi = bound(x.High, length, 0, maxIdx)
	lo = bound(x.Low, 0, 0, hi)
	switch s := v.(type) {
	case Str:
		return Str{B: s.B[lo:hi]}
	case Slice:
		if s.Nil && lo == 0 && hi == 0 {
			return Slice{Nil: true}
		}
		return Slice{A: s.A[lo:hi:mx]}
	case *Value:
		arr := (*s).(Array)
		return Slice{A: arr.E[lo:hi:mx]}
	}
	panic(in.unsupported("slice of unexpected value"))
}

func (in *Interp) checkIndex(idx BV, n int) int {
	idx = in.resolveBV(idx)
	if idx.T == nil {
		iv := sext(idx.C, idx.W)
		if iv < 0 || iv >= int64(n) {
			in.goPanic(fmt.Sprintf("index out of range [%d] with length %d", iv, n))
		}
		return int(iv)
	}
	in.maybePanic(in.bvCmp("bvuge", idx, concBV(idx.W, uint64(n))), fmt.Sprintf("index out of range with length %d", n))
	return -1
}

func (in *Interp) indexAddr(fr *frame, x *ssa.IndexAddr) Value {
	v := force(in.get(fr, x.X))
	idx := in.convertBV(in.get(fr, x.Index).(BV), isSigned(x.Index.Type()), 64)
	var elems []Value
	switch s := v.(type) {
	case Slice:
		elems = s.A
	case *Value:
		if s == nil {
			in.goPanic("nil pointer dereference (index of nil array pointer)")
		}
		elems = (*s).(Array).E
	default:
		panic(in.unsupported(fmt.Sprintf("IndexAddr on %T", v)))
	}
	i := in.checkIndex(idx, len(elems))
	if i < 0 {
		if len(elems) > 0 && readOnlyUse(x) {
			if _, ok := elems[0].(BV); ok {
				// a look-up (the address is only loaded from): no fork over the index values,
				// the load yields a table term / ite chain over the elements
				return &symElem{E: elems, Idx: idx}
			}
		}
		i = in.concretize(idx, 0, len(elems)-1)
	}
	return &elems[i]
}

// symElem is the address elems[idx] for an in-range symbolic idx that is only ever loaded from.
type symElem struct {
	E   []Value
	Idx BV
}

// readOnlyUse: every use of the address is a load.
func readOnlyUse(x *ssa.IndexAddr) bool {
	refs := x.Referrers()
	if refs == nil || len(*refs) == 0 {
		return false
	}
	for _, r := range *refs {
		u, ok := r.(*ssa.UnOp)
		if !ok || u.Op != token.MUL {
			return false
		}
	}
	return true
}

func (in *Interp) loadSymElem(se *symElem) Value {
	in.onRead(&se.E[0])
	w := se.E[0].(BV).W
	if w == 8 && len(se.E) <= 256 {
		conc := true
		buf := make([]byte, 256)
		for k, e := range se.E {
			b := in.resolveBV(e.(BV))
			if b.T != nil {
				conc = false
				break
			}
			buf[k] = byte(b.C)
		}
		if conc {
			return in.mkBV(in.tc.Table(string(buf), in.bvTerm(in.convertBV(in.resolveBV(se.Idx), false, 8))))
		}
	}
	return in.symSelect(se.E, se.Idx)
}

func (in *Interp) index(fr *frame, x *ssa.Index) Value {
	v := force(in.get(fr, x.X))
	idx := in.convertBV(in.get(fr, x.Index).(BV), isSigned(x.Index.Type()), 64)
	switch s := v.(type) {
	case Array:
		i := in.checkIndex(idx, len(s.E))
		if i < 0 {
			return in.symSelect(s.E, idx)
		}
		return copyVal(s.E[i])
	case Str:
		return in.strIndex(s, idx)
	}
	panic(in.unsupported(fmt.Sprintf("Index on %T", v)))
}

func (in *Interp) strIndex(s Str, idx BV) Value {
	i := in.checkIndex(idx, len(s.B))
	if i >= 0 {
		return s.B[i]
	}
	idx = in.resolveBV(idx)
	if cs, ok := s.concrete(); ok && len(cs) <= 256 {
		return in.mkBV(in.tc.Table(cs, in.bvTerm(in.convertBV(idx, false, 8))))
	}
	vals := make([]Value, len(s.B))
	for k := range s.B {
		vals[k] = s.B[k]
	}
	return in.symSelect(vals, idx)
}

// symSelect returns elems[idx] for an in-range symbolic idx over BV elements as an ite chain.
func (in *Interp) symSelect(elems []Value, idx BV) Value {
	idx = in.resolveBV(idx)
	if _, ok := elems[0].(BV); !ok {
		i := in.concretize(idx, 0, len(elems)-1)
		return copyVal(elems[i])
	}
	acc := in.bvTerm(elems[len(elems)-1].(BV))
	for k := len(elems) - 2; k >= 0; k-- {
		c := in.tc.Eq(in.bvTerm(idx), in.tc.BVConst(idx.W, uint64(k)))
		acc = in.tc.Ite(c, in.bvTerm(elems[k].(BV)), acc)
	}
	return in.mkBV(acc)
}

// ---------- maps ----------

func (in *Interp) mapFind(m *MapObj, key Value) int {
	for i := range m.Keys {
		if in.branch(in.equal(m.Keys[i], key)) {
			return i
		}
	}
	return -1
}

func (in *Interp) mapUpdate(m *MapObj, key, val Value) {
	in.onMapAccess(m, true)
	if i := in.mapFind(m, key); i >= 0 {
		m.Vals[i] = val
		return
	}
	m.Keys = append(m.Keys, copyVal(key))
	m.Vals = append(m.Vals, val)
}

func (in *Interp) mapDelete(m *MapObj, key Value) {
	in.onMapAccess(m, true)
	if i := in.mapFind(m, key); i >= 0 {
		m.Keys = append(m.Keys[:i:i], m.Keys[i+1:]...)
		m.Vals = append(m.Vals[:i:i], m.Vals[i+1:]...)
	}
}

func (in *Interp) mapLen(m *MapObj) BV {
	in.onMapAccess(m, false)
	// keys are kept pairwise distinct by mapUpdate (which forks on equality), so len is concrete
	return concBV(64, uint64(len(m.Keys)))
}

func (in *Interp) lookup(fr *frame, x *ssa.Lookup) Value {
	v := in.get(fr, x.X)
	if s, ok := v.(Str); ok {
		return in.strIndex(s, in.convertBV(in.get(fr, x.Index).(BV), isSigned(x.Index.Type()), 64))
	}
	m := v.(*MapObj)
	in.onMapAccess(m, false)
	vt := x.X.Type().Underlying().(*types.Map).Elem()
	var res Value
	found := false
	if m != nil {
		if i := in.mapFind(m, in.get(fr, x.Index)); i >= 0 {
			res = copyVal(m.Vals[i])
			found = true
		}
	}
	if !found {
		res = in.zero(vt)
	}
	if x.CommaOk {
		return Tuple{res, Bool{C: found}}
	}
	return res
}

func (in *Interp) rangeOp(v Value) Value {
	v = force(v)
	switch x := v.(type) {
	case Str:
		return &rangeIter{s: x, isStr: true}
	case *MapObj:
		it := &rangeIter{m: x}
		in.onMapAccess(x, false)
		if x != nil {
			n := len(x.Keys)
			order := make([]int, n)
			for i := range order {
				order[i] = i
			}
			// fork over iteration orders (Go leaves the order unspecified)
			if n > 4 {
				// bound: for large maps only insertion order and its reverse are explored
				in.noteAssumption("range over a map with more than 4 entries explores 2 of n! iteration orders (insertion order and its reverse)")
				tr := in.tc.BoolConst(true)
				if in.decide(2, func(i int) *Term { return tr }) == 1 {
					for i, j := 0, n-1; i < j; i, j = i+1, j-1 {
						order[i], order[j] = order[j], order[i]
					}
				}
			} else if n >= 2 {
				perms := permutations(n)
				tr := in.tc.BoolConst(true)
				ch := in.decide(len(perms), func(i int) *Term { return tr })
				order = perms[ch]
			}
			it.order = order
		}
		return it
	}
	panic(in.unsupported(fmt.Sprintf("range over %T", v)))
}

func permutations(n int) [][]int {
	var res [][]int
	var rec func(cur []int, used []bool)
	rec = func(cur []int, used []bool) {
		if len(cur) == n {
			res = append(res, append([]int{}, cur...))
			return
		}
		for i := 0; i < n; i++ {
			if !used[i] {
				used[i] = true
				rec(append(cur, i), used)
				used[i] = false
			}
		}
	}
	rec(nil, make([]bool, n))
	return res
}

func (in *Interp) next(x *ssa.Next, it *rangeIter) Value {
	if it.isStr {
		if it.pos >= len(it.s.B) {
			return Tuple{Bool{C: false}, BV{W: 64}, BV{W: 32}}
		}
		b := in.resolveBV(it.s.B[it.pos])
		if b.T != nil || b.C >= 0x80 {
			panic(in.unsupported("range over non-ASCII or symbolic string"))
		}
		r := Tuple{Bool{C: true}, concBV(64, uint64(it.pos)), concBV(32, b.C)}
		it.pos++
		return r
	}
	tt := x.Type().(*types.Tuple)
	zeroOf := func(t types.Type) Value {
		if b, ok := t.(*types.Basic); ok && b.Kind() == types.Invalid {
			return nil
		}
		return in.zero(t)
	}
	if it.m == nil || it.pos >= len(it.order) {
		return Tuple{Bool{C: false}, zeroOf(tt.At(1).Type()), zeroOf(tt.At(2).Type())}
	}
	i := it.order[it.pos]
	it.pos++
	if i >= len(it.m.Keys) {
		return Tuple{Bool{C: false}, zeroOf(tt.At(1).Type()), zeroOf(tt.At(2).Type())}
	}
	return Tuple{Bool{C: true}, copyVal(it.m.Keys[i]), copyVal(it.m.Vals[i])}
}

// ---------- interfaces ----------

func (in *Interp) typeAssert(x *ssa.TypeAssert, v Iface) Value {
	ok := false
	var res Value
	if it, isIface := x.AssertedType.Underlying().(*types.Interface); isIface {
		if v.T != nil && types.Implements(v.T, it) {
			ok = true
			res = v
		} else {
			res = Iface{}
		}
	} else {
		if v.T != nil && types.Identical(v.T, x.AssertedType) {
			ok = true
			res = v.V
		} else {
			res = in.zero(x.AssertedType)
		}
	}
	if x.CommaOk {
		return Tuple{res, Bool{C: ok}}
	}
	if !ok {
		in.goPanic("interface conversion: type assertion to " + x.AssertedType.String() + " failed")
	}
	return res
}

// hooks filled by monitor.go
func (in *Interp) onWrite(p *Value) {
	if in.watchOn && in.initing == 0 {
		if tag, ok := in.watch[p]; ok {
			in.res.addViolationRaw("input-write", "write to input object ("+tag+") at "+in.posString())
		}
	}
	if in.mon != nil {
		in.mon.access(in, p, true)
	}
}

func (in *Interp) onRead(p *Value) {
	if in.mon != nil {
		in.mon.access(in, p, false)
	}
}
