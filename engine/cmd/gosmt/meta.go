package main

// propMeta is the per-property statement of bounds, of what lies outside them and of the
// assumptions/stubs that are part of the claim; it is echoed into every evidence file.
type propMeta struct {
	Bounds      []string
	Outside     []string
	Assumptions []string
}

var engineAssumptions = []string{
	"go/packages + go/ssa (x/tools v0.29.0) lower /repo's working tree to SSA equivalent to what gc compiles; mitigated by replaying solver models of passing paths through the natively compiled harness (traces_validated_against_impl)",
	"engine semantics of each SSA instruction and of the intrinsics of DESIGN.md §3.3 (math/big at API level over SMT Int, asm leaves of internal/bytealg, fmt.Errorf/errors.Is identity model, sync and sync/atomic as plain memory, reflect subset, mapstructure.Decode model)",
	"solver soundness: z3 4.8.12 primary; cvc5 1.0.3 --solve-bv-as-int=sum answers multiplication-heavy queries the bit-blaster gives up on; uninterpreted abstraction of multipliers is used only for unsat; small-domain enumeration decides queries over <=17 independent bits exactly; any (error line, unknown or timeout makes the run inconclusive (exit 2), never green",
}

var worldAssumptions = []string{
	"world stubs (DESIGN.md §4): lazily generated account storage constrained by Inv, accounts adapter (one address = one account object), shard function as lazily filled table over {self, other, metachain}, payability oracle as symbolic (bool, error) table, abstract codec (Unmarshal(Marshal(x)) = x after Reset, empty role list encodes to empty string; contract discharged for the generated code by C14)",
	"node assumptions (DESIGN.md §4.7): built-in calls are atomic (single-threaded processor), failed calls are rolled back, cross-shard results are delivered exactly once, refunds are flagged return-after-error, the gogo marshaller is Reset + generated Unmarshal",
	"stated bound: NFT counters are below 2^64-1; token properties are only ever {0|1, 0} (written by ESDTUserMetadata.ToBytes)",
}

func meta(bounds, outside []string, world bool, extra ...string) propMeta {
	a := append([]string{}, engineAssumptions...)
	if world {
		a = append(a, worldAssumptions...)
	}
	a = append(a, extra...)
	return propMeta{Bounds: bounds, Outside: outside, Assumptions: a}
}

var quickArgs = "quick tier argument shapes: token id 2 bytes (C02: {0,2}), nonce argument {0,1,2} bytes (1 byte where the nonce is not the subject), amounts {0,1,8,9} bytes where the amount is the subject else 1 byte, metadata fields 1 byte, <=1 URI, addresses 32 (and 31) bytes; thorough tier: token id 0..3, nonce {0,1,2,8,9}, amounts 0..16 bytes, multi-byte nonce splits in generated metadata"

var propertyMeta = map[string]propMeta{
	"C01": meta([]string{quickArgs, "k <= 2 tokens per multi-transfer (repeats allowed: ids are independent symbolic strings)", "balances unbounded (SMT Int)", "one send step, one deliver step (fresh arbitrary destination world sharing only the codec), one immediate refund step per function", "quick tier pins: gas >= 2^48, DirectCall, no return-after-error on the send step, no pause/freeze variety on the send step (C04's subject), single-byte nonce split (F3's class is explored in the thorough tier)"},
		[]string{"k > 2, token ids > 3 bytes", "destination = system account address (finding F10, decided by C15_SystemAccountDestination)", "node rollback and exactly-once delivery are assumed, not encoded", "refund after intervening operations on the sender (only the immediate refund is executed)"}, true),
	"C02": meta([]string{quickArgs, "balances unbounded (SMT Int); amounts up to 9 bytes (quick) / 16 bytes (thorough)"}, []string{"the 100/101-byte ESDTLocalMint length boundary (arguments > 16 bytes)", "transfers (C01)"}, true),
	"C03": meta([]string{"role lists of <= 2 pairwise-distinct symbolic entries of length 15/17/22/27 (covers every protocol role constant and arbitrary others)", "32-byte symbolic callers, owners, one configured DNS address"}, []string{"role lists with > 2 entries", "more than one DNS address"}, true),
	"C04": meta([]string{quickArgs, "frozen bit and pause flag symbolic in the generated pre-state; return-after-error symbolic", "multi-transfer with 2 tokens only in the thorough tier"}, []string{"NFT entries are gated by their own Properties (DESIGN.md §12: the statement speaks of fungible freezing)"}, true),
	"C05": meta([]string{"SaveKeyValue keys of length 0/5/6/7 (quick) or 0..10 (thorough), values 0..2 bytes, 1-2 pairs, stored raw values 0..2 bytes", quickArgs}, []string{"keys > 10 bytes, more than 2 pairs"}, true),
	"C06": meta([]string{"GasProvided: all 2^64 values; every schedule entry: all non-zero 32-bit values (zero-extended 32-bit variables)", "argument shapes: smallest per function (the gas logic does not depend on argument bytes), multi-transfer k in {1,2}"}, []string{"total argument length >= 2^32 bytes (per-byte products cannot wrap below that)"}, true),
	"C07": meta([]string{"counter cell: absent, 1 byte or 8 bytes (all values below 2^64-1)", "hand-over to an account on the same shard, another shard, or the holder itself; repeated delivery"}, []string{"a duplicate delivery after the new holder already created (excluded by exactly-once delivery; the code would rewind the counter - DESIGN.md F8)"}, true),
	"C08": meta([]string{"metadata fields 0..1 bytes (quick: 1), <= 2 URIs, royalties 2 and 9-byte arguments (covers 0/10000/10001/2^32+1)", "abstract codec; real encoder is C14's subject"}, []string{"field lengths > 2 bytes", "chains are covered by induction (one hop preserves metadata), not executed"}, true),
	"C09": meta([]string{"payability oracle: payable / not payable / error per address; call type all four values; caller symbolic (may be the system contract); 0..2 attached-call arguments", "multi-transfer k in {1,2} on the destination side, 1 on the sender side"}, nil, true),
	"C10": meta([]string{"attached-call function names: non-empty, '@'-free, 1 byte (quick); arguments 1 byte; numbers with leading zeros and 8/9-byte values in the parser/ledger harnesses; k <= 2"}, []string{"names containing '@' or empty (outside C12's stated domain)"}, true),
	"C11": meta([]string{"count sweep: any argument count in 0..len(spec)+1 with one-byte items (32-byte addresses)", "content sweep: full count, numbers 0/1/8 bytes (quick) + 2/9 (thorough) so that 2^64-1 and every residue of 3n+c are in range, token ids 2 bytes (0..3 thorough), addresses 32 (31/33 thorough)", "make() sizes must not exceed len(arguments)+4", "destination-side executions get protocol-shaped payloads"}, []string{"argument counts beyond len(spec)+1 (multi: 9), items longer than 9 bytes", "gas pinned >= 2^48 in this property's scenarios (gas-dependent behaviour is C06's)"}, true),
	"C12": meta([]string{"arbitrary strings (all 256 byte values per position) of length <= 5 (quick) / 8 (thorough) for the three text parsers", "round trips: names 1..3 bytes without '@', <= 3 arguments of 0..2 (3) bytes", "transfer parser: same adversarial argument sweeps as C11"}, []string{"longer strings (behaviour is per-token; argued, not proved)"}, false,
		"abstract codec for the ESDT-transfer parser's decode step"),
	"C13": meta([]string{"all 23 functions, smallest argument shapes, arguments slice with spare capacity", "second run on the world reset to its generated pre-state with the same function object and the same oracle answers"}, []string{"goroutine identity: only in the sense that no goroutine-, time- or randomness-dependent API is reachable (an un-modelled call is inconclusive)", "an unrelated call between the two runs"}, true),
	"C14": meta([]string{"amount codec: nil and every +-m with m < 256^4 (quick) / 256^6, arbitrary pre-filled buffer; decoder on every buffer of length 0..5 (7)", "varint kernel: all 64-bit values (10 length classes) through MetaData.Nonce", "messages: scalar fields in {0,1,127,128} (quick) / all values < 128 (thorough), byte fields 0..2 bytes, <= 2 repeated items, metadata nil/non-nil; decoders on arbitrary buffers of length 0..4 (6)"}, []string{"buffers > 7 bytes; mutated valid encodings (random generation is another technique)"}, false),
	"C15": meta([]string{quickArgs, "Inv (DESIGN.md §4.6) assumed on every generated cell, asserted on every logged write of all 23 functions"}, []string{"role-list duplicates under ESDTSetRole only under the stated system-contract discipline"}, true),
	"C16": meta([]string{"22 independent symbolic schedule entries (non-zero 32-bit), arbitrary prior prices, GasProvided symbolic; equation asserted on funded sender-side executions", "argument sizes: smallest shapes plus SaveKeyValue pairs 0..2 bytes"}, []string{"factory GasScheduleChange broadcast over accepted/rejected maps (covered for construction only by C18)"}, true),
	"C17": meta([]string{"one symbolic fault bit per call of SaveKeyValue(trie), LoadAccount, SaveAccount, Marshal, Unmarshal, IsPayable, AddToBalance, ChangeOwnerAddress, ClaimDeveloperRewards - every subset of faults on every path", "storage reads and the pause lookup are fail-soft by interface design (excluded by the property)"}, nil, true),
	"C18": meta([]string{"epoch and activation epoch: all 2^32 x 2^32 values; prior state: never notified / one / two arbitrary notifications", "factory executed with a symbolic accepted schedule; container Keys() over 23 entries (2 iteration orders)"}, []string{"iteration orders of the 23-entry map beyond insertion order and its reverse"}, true),
	"C19": meta([]string{"step 1: all sequential paths of every MutexMap method, every method of the atomic types and SetNewGasConfig + ProcessBuiltinFunction of the 15 mutex-guarded priced functions (smallest argument shapes)", "step 2: 2 goroutines x 1 operation each, scheduler decision before every mutex and atomic operation (all interleavings at that granularity): MutexMap (6 operations x 2 keys, 0..2 initial entries), function container (Add/Replace/Remove vs Get/Len/Keys), Counter.Add, Flag.Set, ProcessBuiltinFunction || SetNewGasConfig for ESDTNFTCreate, ESDTNFTAddURI, ESDTLocalMint"},
		[]string{"more than 2 goroutines or more than 1 operation per goroutine; schedules of the Go runtime below synchronisation-operation granularity are covered only through the reduction: lockset discipline => no data race (paper argument), data-race freedom => sequentially consistent behaviour at sync granularity (Go memory model)", "the race detector itself is not run (another technique)", "epoch notifications concurrent with execution: the flag is an atomic cell (discipline checked), no behavioural interleaving harness"}, true),
	"C20": meta([]string{"all 65 536 byte pairs per flag codec, lengths 0..4", "addresses of every length 0..40 with all bytes symbolic; identifiers 0..3 bytes", "SafeSubUint64: all 2^128 pairs", "MergeOutputAccounts: accounts over nil/present deltas (unbounded Int), nil/empty/1/2 storage updates over a shared 2-key universe, 0..2 transfers; write monitor over the merged-in account across two merges"}, nil, false),
}
