package main

// propMeta is the per-property statement of bounds, of what lies outside them and of the
// assumptions/stubs that are part of the claim; it is echoed into every evidence file.
type propMeta struct {
	Bounds      []string
	Outside     []string
	Assumptions []string
}

var engineAssumptions = []string{
	"go/packages + go/ssa (x/tools v0.29.0) lower /repo's working tree to SSA equivalent to what gc compiles; mitigated by replaying solver models of passing paths through the natively compiled harness (traces_validated_against_impl)",
	"engine semantics of each SSA instruction and of the intrinsics of DESIGN.md §3.3 (math/big at API level over SMT Int, asm leaves of internal/bytealg, fmt.Errorf/errors.Is identity model, sync and sync/atomic as plain memory, reflect subset, mapstructure.Decode model)",
	"solver soundness: z3 4.8.12 primary; cvc5 1.0.3 --solve-bv-as-int=sum answers multiplication-heavy queries the bit-blaster gives up on; uninterpreted abstraction of multipliers is used only for unsat; small-domain enumeration decides queries over <=17 independent bits exactly; any (error line, unknown or timeout makes the run inconclusive (exit 2), never green",
}

var worldAssumptions = []string{
	"world stubs (DESIGN.md §4): lazily generated account storage constrained by Inv, accounts adapter (one address = one account object), shard function as lazily filled table over {self, other, metachain}, payability oracle as symbolic (bool, error) table, abstract codec (Unmarshal(Marshal(x)) = x after Reset, empty role list encodes to empty string; contract discharged for the generated code by C14)",
	"node assumptions (DESIGN.md §4.7): built-in calls are atomic (single-threaded processor), failed calls are rolled back, cross-shard results are delivered exactly once, refunds are flagged return-after-error, the gogo marshaller is Reset + generated Unmarshal",
	"stated bound: NFT counters are below 2^64-1; token properties are only ever {0|1, 0} (written by ESDTUserMetadata.ToBytes)",
}

func meta(bounds, outside []string, world bool, extra ...string) propMeta {
	a := append([]string{}, engineAssumptions...)
	if world {
		a = append(a, worldAssumptions...)
	}
	a = append(a, extra...)
	return propMeta{Bounds: bounds, Outside: outside, Assumptions: a}
}

var quickArgs = "quick tier argument shapes: token id 2 bytes (C02: {0,2}), nonce argument {0,1,2} bytes (1 byte where the nonce is not the subject), amounts {0,1,8,9} bytes where the amount is the subject else 1 byte, metadata fields 1 byte, <=1 URI, addresses 32 (and 31) bytes; thorough tier: token id 0..3, nonce {0,1,2,8,9}, amounts 0..16 bytes, multi-byte nonce splits in generated metadata"

var propertyMeta = map[string]propMeta{
	"C01": meta([]string{quickArgs, "k <= 2 tokens per multi-transfer (repeats allowed: ids are independent symbolic strings)", "balances unbounded (SMT Int)", "one send step, one deliver step (fresh arbitrary destination world sharing only the codec), one immediate refund step per function", "quick tier pins: gas >= 2^48, DirectCall, no return-after-error on the send step, no pause/freeze variety on the send step (C04's subject), single-byte nonce split (F3's class is explored in the thorough tier)"},
		[]string{"k > 2, token ids > 3 bytes", "destination = system account address (finding F10, decided by C15_SystemAccountDestination)", "node rollback and exactly-once delivery are assumed, not encoded", "refund after intervening operations on the sender (only the immediate refund is executed)"}, true),
	"C02": meta([]string{quickArgs, "balances unbounded (SMT Int); amounts up to 9 bytes (quick) / 16 bytes (thorough)", "SaveKeyValue with balance keys: 1..2 pairs (3 thorough), each key plain (1 byte) / ELRONDesdt+2 bytes / ELRONDesdt+3 bytes, each value empty / 2 raw bytes / an encoded token of arbitrary quantity"}, []string{"the 100/101-byte ESDTLocalMint length boundary (arguments > 16 bytes)", "transfers (C01)"}, true),
	"C03": meta([]string{"role lists of <= 2 pairwise-distinct symbolic entries of length 15/17/22/27 (covers every protocol role constant and arbitrary others)", "32-byte symbolic callers, owners, one configured DNS address", "ESDTSetRole / ESDTUnSetRole with 1..2 listed roles (three protocol constants or 17 arbitrary bytes each, held or not, any order): list afterwards = old list plus / minus the listed roles"}, []string{"role lists with > 2 entries, more than 2 listed roles", "more than one DNS address"}, true),
	"C04": meta([]string{quickArgs, "frozen bit and pause flag symbolic in the generated pre-state; return-after-error symbolic; call type symbolic on ESDTTransfer and on the arrival legs of the NFT and multi transfer (DirectCall on their sender legs)", "multi-transfer with 2 tokens only in the thorough tier"}, []string{"NFT entries are gated by their own Properties (DESIGN.md §12: the statement speaks of fungible freezing)"}, true),
	"C05": meta([]string{"SaveKeyValue keys of length 0/5/6/7 (quick) or 0..10 (thorough), values 0..2 bytes, 1-2 pairs, stored raw values 0..2 bytes", quickArgs, "arrival footprint per item: exactly the entry token+payload nonce (plain token key for fungible items); two-item arrivals in the quick tier with thin state and no attached call (C05_MultiTransfer2DestThin), full state in the thorough tier"}, []string{"keys > 10 bytes, more than 2 pairs"}, true),
	"C06": meta([]string{"GasProvided: all 2^64 values; every schedule entry: all non-zero 32-bit values (zero-extended 32-bit variables)", "argument shapes: smallest per function (the gas logic does not depend on argument bytes), multi-transfer k in {1,2}"}, []string{"total argument length >= 2^32 bytes (per-byte products cannot wrap below that)"}, true),
	"C07": meta([]string{"counter cell: absent, 1 byte or 8 bytes (all values below 2^64-1)", "hand-over to an account on the same shard, another shard, or the holder itself; repeated delivery"}, []string{"a duplicate delivery after the new holder already created (excluded by exactly-once delivery; the code would rewind the counter - DESIGN.md F8)"}, true),
	"C08": meta([]string{"metadata fields 0..1 bytes (quick: 1), <= 2 URIs, royalties 2 and 9-byte arguments (covers 0/10000/10001/2^32+1)", "abstract codec; real encoder is C14's subject"}, []string{"field lengths > 2 bytes", "chains are covered by induction (one hop preserves metadata), not executed"}, true),
	"C09": meta([]string{"payability oracle: payable / not payable / error per address; call type all four values; caller symbolic (may be the system contract); 0..2 attached-call arguments", "multi-transfer k in {1,2} on the destination side, 1 on the sender side", "executing shard: a regular shard in every harness, the metachain itself in C09_TransferOnMetachain (ESDTTransfer, whose metachain guard is unconditional)"}, []string{"NFT and multi transfer arriving on the metachain (their metachain guard is on the sender side only)"}, true),
	"C10": meta([]string{"attached-call function names: non-empty, '@'-free, 1 byte (quick); arguments 1 byte; numbers with leading zeros and 8/9-byte values in the parser/ledger harnesses; k <= 2", "emitted multi-transfer message compared item by item (token, nonce, fungible value / payload quantity and metadata nonce): 1 item with attached call, 2 items of arbitrary kinds to another shard (quick: without attached call)"}, []string{"names containing '@' or empty (outside C12's stated domain)"}, true),
	"C11": meta([]string{"count sweep: any argument count in 0..len(spec)+1 with one-byte items (32-byte addresses)", "content sweep: full count, numbers 0/1/8 bytes (quick) + 2/9 (thorough; multi-transfer lists: + 9, token ids 0/2, addresses 31/32) so that 2^64-1 and every residue of 3n+c are in range, token ids 2 bytes (0..3 thorough), addresses 32 (31/33 thorough)", "make() sizes must not exceed len(arguments)+4", "destination-side executions get protocol-shaped payloads"}, []string{"argument counts beyond len(spec)+1 (multi: 9), items longer than 9 bytes", "gas pinned >= 2^48 in the adversarial-argument (Wild) scenarios; arbitrary GasProvided and schedule are covered with typical argument shapes by the C11_Gas_* family (27 scenarios)"}, true),
	"C12": meta([]string{"arbitrary strings (all 256 byte values per position) of length <= 5 (quick) / 8 (thorough) for the three text parsers", "round trips: names 1..3 bytes without '@', <= 3 arguments of 0..2 (3) bytes", "transfer parser: same adversarial argument sweeps as C11"}, []string{"longer strings (behaviour is per-token; argued, not proved)"}, false,
		"abstract codec for the ESDT-transfer parser's decode step"),
	"C13": meta([]string{"all 23 functions, smallest argument shapes, arguments slice with spare capacity", "second run on the world reset to its generated pre-state with the same function object and the same oracle answers; outputs, write logs and the content of every encoded object (element order included) compared; map iteration order forks independently in both runs"}, []string{"goroutine identity: only in the sense that no goroutine-, time- or randomness-dependent API is reachable (an un-modelled call is inconclusive)", "an unrelated call between the two runs"}, true),
	"C14": meta([]string{"amount codec: nil and every +-m with m < 256^4 (quick) / 256^6, plus magnitudes of 7, 8, 9 (15, 16, 17 thorough) bytes with a non-zero leading byte, arbitrary pre-filled buffer; decoder on every buffer of length 0..5 (7)", "varint kernel: all 64-bit values (10 length classes) through MetaData.Nonce", "messages: scalar fields in {0,1,127,128} (quick) / all values < 128 (thorough), byte fields 0..2 bytes, <= 2 repeated items, metadata nil/non-nil; decoders on arbitrary buffers of length 0..4 (6)", "structured long buffers: optional complete leading field, arbitrary tag byte, a varint of 1/2/5/9/10 bytes (1..10 thorough) with arbitrary 7-bit groups, 0..2 arbitrary tail bytes - for all three message types", "thorough token round trip: Type and metadata Nonce over every varint width boundary 2^(7k)-1, 2^(7k) and the type maximum"}, []string{"unstructured buffers > 7 bytes; mutated valid encodings (random generation is another technique)"}, false),
	"C15": meta([]string{quickArgs, "Inv (DESIGN.md §4.6) assumed on every generated cell, asserted on every logged write of all 23 functions"}, []string{"role-list duplicates under ESDTSetRole only under the stated system-contract discipline"}, true),
	"C16": meta([]string{"22 independent symbolic schedule entries (non-zero 32-bit), arbitrary prior prices, GasProvided symbolic; equation asserted on funded sender-side executions", "argument sizes: smallest shapes plus SaveKeyValue pairs 0..2 bytes", "production factory: each of the 15 priced functions taken from the container, under the construction schedule and after one accepted GasScheduleChange over arbitrary earlier prices (C16_Factory_*)", "rejected schedules: arbitrary 64-bit entries with a zero at any of the 22 positions, a missing section, or any one missing entry - the change writes nothing to the factory or to any of the 23 function objects (engine write monitor), after construction or after an accepted change; the validator errs iff some entry is zero; a bad construction schedule is rejected"}, []string{"histories of more than one accepted followed by one rejected schedule change (one step each is explored; longer histories follow by induction on the object state, which is not encoded)"}, true),
	"C17": meta([]string{"one symbolic fault bit per call of SaveKeyValue(trie), LoadAccount, SaveAccount, Marshal, Unmarshal, IsPayable, AddToBalance, ChangeOwnerAddress, ClaimDeveloperRewards - every subset of faults on every path", "storage reads and the pause lookup are fail-soft by interface design (excluded by the property)"}, nil, true),
	"C18": meta([]string{"epoch and activation epoch: all 2^32 x 2^32 values; prior state: never notified / one / two arbitrary notifications", "factory executed with a symbolic accepted schedule; container Keys() over 23 entries (2 iteration orders)"}, []string{"iteration orders of the 23-entry map beyond insertion order and its reverse"}, true),
	"C19": meta([]string{"step 1: all sequential paths of every MutexMap method, every method of the atomic types and SetNewGasConfig + ProcessBuiltinFunction of the 15 mutex-guarded priced functions (smallest argument shapes)", "step 2: 2 goroutines x 1 operation each, scheduler decision before every mutex and atomic operation (all interleavings at that granularity): MutexMap (6 operations x 2 keys, 0..2 initial entries), function container (Add/Replace/Remove vs Get/Len/Keys), Counter (all 8 operations pairwise, arbitrary arguments and initial value), Flag (all 5 operations pairwise), ProcessBuiltinFunction || SetNewGasConfig for ESDTNFTCreate, ESDTNFTAddURI, ESDTLocalMint"},
		[]string{"more than 2 goroutines or more than 1 operation per goroutine; schedules of the Go runtime below synchronisation-operation granularity are covered only through the reduction: lockset discipline => no data race (paper argument), data-race freedom => sequentially consistent behaviour at sync granularity (Go memory model)", "the race detector itself is not run (another technique)", "epoch notifications concurrent with execution: the flag is an atomic cell (discipline checked), no behavioural interleaving harness"}, true,
		"native replay of interleavings: the C19 native build compiles atomic/, container/ and builtInFunctions/ from copies of the working-tree files whose imports of sync and sync/atomic are redirected (build overlay only) to shims that yield to the replay scheduler before performing the real operation; scheduler picks come from the tape"),
	"C20": meta([]string{"all 65 536 byte pairs per flag codec, lengths 0..4", "addresses of every length 0..40 with all bytes symbolic; identifiers 0..3 bytes", "SafeSubUint64: all 2^128 pairs", "MergeOutputAccounts: accounts over nil/present deltas (unbounded Int), nil/empty/1/2 storage updates over a shared 2-key universe, 0..2 transfers; write monitor over the merged-in account across two merges"}, nil, false),
}

// round6Bounds: harnesses added after the sixth round of seeded changes (DESIGN.md §14.9).
var round6Bounds = map[string][]string{
	"C01": {"C01_TransferSelf: an ESDTTransfer an account addresses to itself (one account object as sender and destination): holding unchanged, nothing else written"},
	"C02": {"C02_{Transfer,NFTTransfer,MultiTransfer}SameShard: both legs of a transfer in one call (destination pinned to the executing shard, one item, no attached call): what the sender loses the destination gains, per (token, nonce)"},
	"C03": {"hand-over at the current holder: the create role is gone from its list afterwards, whatever else the list holds (also when it was the only entry)"},
	"C04": {"C04_TransferSelf: self-addressed ESDTTransfer under freeze / pause"},
	"C05": {"write monitor on the function object's own state and on the package-level variables of the repository's packages (key prefixes incl. spare capacity, shared big.Int constants) during every footprint harness; C05_TransferSelf"},
	"C07": {"C07_CreateCounterReadFault, C07_HandOverCounterReadFault: every read of the nonce-counter key may fail (one symbolic fault bit per read; reads of other keys never fail): a call that succeeds still continues after / ships the stored counter"},
	"C09": {"C09_DefaultHandler{Transfer,NFTDest,MultiDest}: no oracle installed (constructor default): nothing credited unless exempt; SetPayableHandler(nil) refused"},
	"C12": {"C12_BuilderTyped: every typed adder (Byte, Str <= 2 bytes, Int and Int64 over all 2^64 values, Bool/True/False, BigInt of <= 3-byte magnitude, either sign), one element (two in the thorough tier); C12_BuilderCompound: IssueESDT / TransferESDT / TransferESDTNFT / BurnESDT / the seven Can* adders, token <= 2 bytes, all int64 values; C12_BuilderState: GetLast / SetLast / Clear with 0..2 elements"},
	"C13": {"write monitor also covers package-level variables of the repository's packages (scalars, byte slices incl. spare capacity, big.Int pointees); C13_{NFTTransfer,MultiTransfer}DestAnyPayload: arrival with a decodable payload that lacks its quantity and/or metadata (write monitor only, one run); C13_TransferSelf"},
	"C18": {"C18_ActivationAtRegistration: the notifier tells a handler the current epoch (symbolic, 32 bits) inside RegisterNotifyHandler"},
	"C19": {"C19_IntegersLinearizable: Set/Get pairs on Uint32, Uint64, Int64 (all values) and String (three values); the discipline harnesses also run the write monitor (function object, package-level variables) over the execution"},
	"C20": {"C20_MergeStorageUpdates: nil / empty / one- / two-entry update maps over two keys on both sides, update data empty (a recorded deletion) or one byte, through MergeOutputAccounts and MergeStorageUpdates"},
}

func init() {
	for k, v := range round6Bounds {
		m := propertyMeta[k]
		m.Bounds = append(m.Bounds, v...)
		propertyMeta[k] = m
	}
}

// round7Bounds: harnesses added after the seventh round of seeded changes (DESIGN.md §14.10).
var round7Bounds = map[string][]string{
	"C02": {"C02_NFTAddQuantityWideNonce, C02_NFTBurnWideNonce: nonce argument of 8 and 9 arbitrary bytes (values at and beyond 2^64): the supply oracle plus 'an NFT operation never writes an entry that was a fungible holding'"},
	"C10": {"C10_EmitMultiTransferManyItems: 255, 256 and 257 copies of one concrete fungible item to another shard: the announced count is the number of items"},
	"C11": {"numeric arguments of the adversarial family: lengths {0,1,8,9} in the quick tier too"},
	"C15": {"write monitor (function object, package-level variables, spare capacity included) during every harness of the family"},
}

func init() {
	for k, v := range round7Bounds {
		m := propertyMeta[k]
		m.Bounds = append(m.Bounds, v...)
		propertyMeta[k] = m
	}
}

func init() {
	m := propertyMeta["C01"]
	m.Bounds = append(m.Bounds, "C01_NFTTransferWideNonce, C01_MultiTransferWideNonce: send step with a nonce argument of 8 and 9 arbitrary bytes (one item, no attached call)")
	propertyMeta["C01"] = m
}
