package main

// propMeta is the per-property statement of bounds, of what lies outside them and of the
// assumptions/stubs that are part of the claim; it is echoed into every evidence file.
type propMeta struct {
	Bounds      []string
	Outside     []string
	Assumptions []string
}

var commonAssumptions = []string{
	"go/packages + go/ssa (x/tools v0.29.0) lower /repo's working tree to SSA equivalent to what gc compiles; mitigated by replaying solver models of passing paths through the natively compiled harness (traces_validated_against_impl)",
	"engine semantics of each SSA instruction and of the intrinsics listed in DESIGN.md §3.3 (math/big at API level over SMT Int, asm leaves of internal/bytealg, fmt.Errorf/errors.Is identity model, sync and sync/atomic as plain memory)",
	"solver soundness (z3 4.8.12); any (error line, unknown or timeout makes the run inconclusive (exit 2), never green",
}

var propertyMeta = map[string]propMeta{}
