// gosmt: solver-based checking of /repo (see /verif/DESIGN.md).
//
//	gosmt check <property> [--tier quick|thorough] [--harness <name>] [--solver z3|z3-new|cvc5]
//	gosmt replay <file>
//	gosmt list
package main

import (
	"encoding/json"
	"fmt"
	"os"
	"path/filepath"
	"sort"
	"strconv"
	"strings"
	"time"

	"gosmt/sym"

	"golang.org/x/tools/go/packages"
	"golang.org/x/tools/go/ssa"
	"golang.org/x/tools/go/ssa/ssautil"
)

const (
	verifDir   = "/verif"
	harnessSrc = "/verif/harness"
	propsPkg   = "github.com/ElrondNetwork/elrond-vm-common/zz_verif/props"
)

// harnessDir is a private snapshot of /verif/harness taken when a check starts: the engine's
// load and the native build at the end of the run then see the same harness sources even if
// the files are edited meanwhile.
var harnessDir = harnessSrc

func snapshotHarness() (cleanup func()) {
	dir, err := os.MkdirTemp("", "gosmt-harness-")
	if err != nil {
		return func() {}
	}
	ok := true
	filepath.Walk(harnessSrc, func(p string, info os.FileInfo, err error) error {
		if err != nil || info.IsDir() || !strings.HasSuffix(p, ".go") {
			return nil
		}
		rel, _ := filepath.Rel(harnessSrc, p)
		b, rerr := os.ReadFile(p)
		if rerr != nil {
			ok = false
			return nil
		}
		dst := filepath.Join(dir, rel)
		os.MkdirAll(filepath.Dir(dst), 0o755)
		if os.WriteFile(dst, b, 0o644) != nil {
			ok = false
		}
		return nil
	})
	if !ok {
		os.RemoveAll(dir)
		return func() {}
	}
	harnessDir = dir
	return func() { os.RemoveAll(dir) }
}

// repoDir is /repo; GOSMT_REPO points the tool at a scratch worktree for experiments with seeded
// changes (registered commands never set it).
var repoDir = func() string {
	if d := os.Getenv("GOSMT_REPO"); d != "" {
		return d
	}
	return "/repo"
}()

func goEnv() []string {
	env := os.Environ()
	env = append(env, "GOFLAGS=-mod=mod", "GOPROXY=off", "GOSUMDB=off", "GOTOOLCHAIN=local", "CGO_ENABLED=0")
	return env
}

// overlay maps the harness sources into /repo/zz_verif (nothing is written to /repo).
func overlay(withTests bool) map[string][]byte {
	ov := map[string][]byte{}
	filepath.Walk(harnessDir, func(p string, info os.FileInfo, err error) error {
		if err != nil || info.IsDir() || !strings.HasSuffix(p, ".go") {
			return nil
		}
		if strings.HasSuffix(p, "_test.go") && !withTests {
			return nil
		}
		rel, _ := filepath.Rel(harnessDir, p)
		b, err := os.ReadFile(p)
		if err == nil {
			ov[filepath.Join(repoDir, "zz_verif", rel)] = b
		}
		return nil
	})
	return ov
}

func load() (*ssa.Program, *ssa.Package, error) {
	sym.RepoRoot = repoDir + "/"
	cfg := &packages.Config{
		Mode:       packages.LoadAllSyntax,
		Dir:        repoDir,
		Overlay:    overlay(false),
		BuildFlags: []string{"-tags=verif"},
		Env:        goEnv(),
	}
	pkgs, err := packages.Load(cfg, "./zz_verif/props")
	if err != nil {
		return nil, nil, err
	}
	nerr := 0
	packages.Visit(pkgs, nil, func(p *packages.Package) {
		for _, e := range p.Errors {
			fmt.Fprintln(os.Stderr, "load error:", e)
			nerr++
		}
	})
	if nerr > 0 {
		return nil, nil, fmt.Errorf("%d load/type errors (harness does not compile against the current tree)", nerr)
	}
	prog, spkgs := ssautil.AllPackages(pkgs, ssa.InstantiateGenerics)
	prog.Build()
	var props *ssa.Package
	for _, p := range spkgs {
		if p != nil && p.Pkg.Path() == propsPkg {
			props = p
		}
	}
	if props == nil {
		return nil, nil, fmt.Errorf("props package not found")
	}
	return prog, props, nil
}

type knownFinding struct {
	Property string `json:"property"`
	ID       string `json:"id"`
	Status   string `json:"status"` // known | fixed
	Commit   string `json:"commit,omitempty"`
	What     string `json:"what"`
	Class    string `json:"input_class"`
}

func loadKnown() []knownFinding {
	var kf struct {
		Findings []knownFinding `json:"findings"`
	}
	b, err := os.ReadFile(filepath.Join(verifDir, "known_findings.json"))
	if err != nil {
		return nil
	}
	json.Unmarshal(b, &kf)
	return kf.Findings
}

func harnessesFor(props *ssa.Package, prop string, thorough bool, only string) []*ssa.Function {
	var out []*ssa.Function
	for name, m := range props.Members {
		fn, ok := m.(*ssa.Function)
		if !ok {
			continue
		}
		if only != "" {
			if name == only {
				out = append(out, fn)
			}
			continue
		}
		if strings.HasPrefix(name, prop+"_") || (thorough && strings.HasPrefix(name, prop+"T_")) {
			out = append(out, fn)
		}
	}
	sort.Slice(out, func(i, j int) bool { return out[i].Name() < out[j].Name() })
	return out
}

func main() {
	if len(os.Args) < 2 {
		fmt.Fprintln(os.Stderr, "usage: gosmt check <property> [--tier quick|thorough] | replay <file> | list")
		os.Exit(2)
	}
	switch os.Args[1] {
	case "check":
		os.Exit(cmdCheck(os.Args[2:]))
	case "replay":
		os.Exit(cmdReplay(os.Args[2:]))
	case "list":
		_, props, err := load()
		if err != nil {
			fmt.Fprintln(os.Stderr, err)
			os.Exit(2)
		}
		var names []string
		for name, m := range props.Members {
			if _, ok := m.(*ssa.Function); ok && len(name) > 3 && name[0] == 'C' {
				names = append(names, name)
			}
		}
		sort.Strings(names)
		for _, n := range names {
			fmt.Println(n)
		}
	default:
		fmt.Fprintln(os.Stderr, "unknown command")
		os.Exit(2)
	}
}

type checkOpts struct {
	prop     string
	tier     string
	only     string
	solver   string
	noReplay bool
	maxPaths int
	workers  int
	verbose  bool
	budget   time.Duration
	dump     string
	noSum    bool
}

func parseCheck(args []string) checkOpts {
	o := checkOpts{tier: os.Getenv("VERIF_TIER"), solver: "z3"}
	if o.tier == "" {
		o.tier = "quick"
	}
	for i := 0; i < len(args); i++ {
		a := args[i]
		nextArg := func() string {
			i++
			if i < len(args) {
				return args[i]
			}
			return ""
		}
		switch a {
		case "--tier":
			o.tier = nextArg()
		case "--harness":
			o.only = nextArg()
		case "--solver":
			o.solver = nextArg()
		case "--no-replay":
			o.noReplay = true
		case "--max-paths":
			o.maxPaths, _ = strconv.Atoi(nextArg())
		case "--workers":
			o.workers, _ = strconv.Atoi(nextArg())
		case "--budget":
			o.budget, _ = time.ParseDuration(nextArg())
		case "--dump":
			o.dump = nextArg()
		case "--no-summaries":
			o.noSum = true
		case "-v":
			o.verbose = true
		default:
			if o.prop == "" {
				o.prop = a
			}
		}
	}
	return o
}

func cmdCheck(args []string) int {
	o := parseCheck(args)
	if o.prop == "" {
		fmt.Fprintln(os.Stderr, "property id required")
		return 2
	}
	seed := 0
	if s := os.Getenv("VERIF_SEED"); s != "" {
		seed, _ = strconv.Atoi(s)
	}
	start := time.Now()
	thorough := o.tier == "thorough"
	defer snapshotHarness()()
	prog, props, err := load()
	if err != nil {
		fmt.Fprintln(os.Stderr, "INCONCLUSIVE:", err)
		return 2
	}
	loadTime := time.Since(start)
	hs := harnessesFor(props, o.prop, thorough, o.only)
	if len(hs) == 0 {
		fmt.Fprintln(os.Stderr, "INCONCLUSIVE: no harness for", o.prop)
		return 2
	}
	known := map[string]bool{}
	findings := loadKnown()
	for _, f := range findings {
		if f.Status == "known" {
			known[f.ID] = true
		}
	}
	var reports []*sym.HarnessReport
	for _, h := range hs {
		cfg := &sym.Config{
			Prog: prog, Harness: h.Name(), Entry: h, Thorough: thorough, Known: known,
			SolverName: o.solver, WantSample: true, MaxPaths: o.maxPaths, Workers: o.workers,
			ValidateMax: map[bool]int{false: 24, true: 200}[thorough], DumpFile: o.dump, NoSummaries: o.noSum,
		}
		if o.budget > 0 {
			cfg.Deadline = time.Now().Add(o.budget)
		}
		rep := sym.Explore(cfg)
		reports = append(reports, rep)
		fmt.Printf("harness %-44s paths=%-6d steps=%-9d queries=%-7d asserts=%d(+%d trivial) viol=%d known=%d inconcl=%d solver=%.1fs wall=%.1fs ends=%v\n",
			rep.Harness, rep.Paths, rep.Steps, rep.Queries, rep.Asserts, rep.AssertsTriv, len(rep.Violations), len(rep.KnownHits),
			len(rep.Inconclusive), rep.SolverTime.Seconds(), rep.Wall.Seconds(), rep.PathEnds)
		if o.verbose || len(rep.Inconclusive) > 0 {
			for _, s := range rep.Inconclusive {
				fmt.Println("  inconclusive:", s)
			}
		}
		if o.verbose {
			type kv struct {
				k string
				v int
			}
			var fs []kv
			for k, v := range rep.Forks {
				fs = append(fs, kv{k, v})
			}
			sort.Slice(fs, func(i, j int) bool { return fs[i].v > fs[j].v })
			for i, f := range fs {
				if i >= 25 {
					break
				}
				fmt.Printf("  fork-site %-60s %d\n", f.k, f.v)
			}
		}
		if len(rep.NotReached) > 0 {
			fmt.Println("  NOT REACHED:", rep.NotReached)
		}
	}
	return finish(o, seed, start, loadTime, reports, findings)
}
