package main

import (
	"crypto/sha256"
	"encoding/hex"
	"encoding/json"
	"fmt"
	"os"
	"os/exec"
	"path/filepath"
	"regexp"
	"sort"
	"strings"
	"time"

	"gosmt/sym"
)

// ---------- native build & run ----------

type nativeJob struct {
	Harness  string          `json:"harness"`
	Tape     []sym.TapeEntry `json:"tape"`
	Thorough bool            `json:"thorough"`
}

type nativeFailed struct {
	ID      string `json:"assert"`
	Finding string `json:"finding"`
	InClass bool   `json:"in_class"`
}

type nativeOutcome struct {
	Harness   string         `json:"harness"`
	Failed    []nativeFailed `json:"failed"`
	Panic     string         `json:"panic"`
	TapeError string         `json:"tape_error"`
	Assume    bool           `json:"assume_failed"`
	Reached   []string       `json:"reached"`
	Observes  []sym.ObsValue `json:"observes"`
	Leftover  int            `json:"tape_leftover"`
	Notes     []string       `json:"notes,omitempty"`
}

type native struct {
	dir string
	bin string
}

func buildNative(prop string) (*native, error) {
	dir, err := os.MkdirTemp("", "gosmt-native-")
	if err != nil {
		return nil, err
	}
	repl := map[string]string{}
	filepath.Walk(harnessDir, func(p string, info os.FileInfo, err error) error {
		if err != nil || info.IsDir() || !strings.HasSuffix(p, ".go") {
			return nil
		}
		rel, _ := filepath.Rel(harnessDir, p)
		repl[filepath.Join(repoDir, "zz_verif", rel)] = p
		return nil
	})
	if prop == "C19" {
		// concurrency replay: the native build of the repo's packages gets scheduling points -
		// copies of their files (regenerated from the working tree on every run) in which only
		// the import of sync / sync/atomic is redirected to zz_verif/vsync / zz_verif/vatomic.
		if err := syncShim(dir, repl); err != nil {
			os.RemoveAll(dir)
			return nil, err
		}
	}
	ovb, _ := json.Marshal(map[string]interface{}{"Replace": repl})
	ovf := filepath.Join(dir, "overlay.json")
	os.WriteFile(ovf, ovb, 0o644)
	bin := filepath.Join(dir, "props.test")
	cmd := exec.Command("go", "test", "-c", "-tags", "verif", "-vet=off", "-overlay", ovf, "-o", bin, "./zz_verif/props")
	cmd.Dir = repoDir
	cmd.Env = goEnv()
	out, err := cmd.CombinedOutput()
	if err != nil {
		os.RemoveAll(dir)
		return nil, fmt.Errorf("native build failed: %v\n%s", err, out)
	}
	return &native{dir: dir, bin: bin}, nil
}

var (
	reSyncImport   = regexp.MustCompile(`(?m)^(import\s+|\s+)"sync"\s*$`)
	reAtomicImport = regexp.MustCompile(`(?m)^(import\s+|\s+)"sync/atomic"\s*$`)
)

func syncShim(dir string, repl map[string]string) error {
	n := 0
	for _, pkg := range []string{"atomic", "container", "builtInFunctions"} {
		ents, err := os.ReadDir(filepath.Join(repoDir, pkg))
		if err != nil {
			return err
		}
		for _, e := range ents {
			name := e.Name()
			if e.IsDir() || !strings.HasSuffix(name, ".go") || strings.HasSuffix(name, "_test.go") {
				continue
			}
			src, err := os.ReadFile(filepath.Join(repoDir, pkg, name))
			if err != nil {
				return err
			}
			out := reSyncImport.ReplaceAll(src, []byte(`${1}sync "github.com/ElrondNetwork/elrond-vm-common/zz_verif/vsync"`))
			out = reAtomicImport.ReplaceAll(out, []byte(`${1}atomic "github.com/ElrondNetwork/elrond-vm-common/zz_verif/vatomic"`))
			if string(out) == string(src) {
				continue
			}
			dst := filepath.Join(dir, "shim", pkg, name)
			os.MkdirAll(filepath.Dir(dst), 0o755)
			if err := os.WriteFile(dst, out, 0o644); err != nil {
				return err
			}
			repl[filepath.Join(repoDir, pkg, name)] = dst
			n++
		}
	}
	if n == 0 {
		return fmt.Errorf("concurrency shim: no file importing sync found under %s", repoDir)
	}
	return nil
}

func (n *native) close() { os.RemoveAll(n.dir) }

func (n *native) run(jobs []nativeJob) ([]nativeOutcome, error) {
	if len(jobs) == 0 {
		return nil, nil
	}
	jf := filepath.Join(n.dir, "jobs.json")
	of := filepath.Join(n.dir, "out.json")
	b, _ := json.Marshal(jobs)
	os.WriteFile(jf, b, 0o644)
	os.Remove(of)
	cmd := exec.Command(n.bin, "-test.run", "^TestVerifReplay$", "-test.timeout", "600s")
	cmd.Dir = n.dir
	cmd.Env = append(os.Environ(), "VERIF_JOBS="+jf, "VERIF_OUT="+of, "GOMEMLIMIT=4GiB")
	out, err := cmd.CombinedOutput()
	ob, rerr := os.ReadFile(of)
	if rerr != nil {
		return nil, fmt.Errorf("native run produced no output: %v\n%s", err, out)
	}
	var outs []nativeOutcome
	if jerr := json.Unmarshal(ob, &outs); jerr != nil {
		return nil, jerr
	}
	return outs, nil
}

// ---------- replay files ----------

type replayFile struct {
	Property  string          `json:"property"`
	Harness   string          `json:"harness"`
	Tier      string          `json:"tier"`
	Tree      string          `json:"tree"`
	Assert    string          `json:"assert"`
	Kind      string          `json:"kind"`
	At        string          `json:"at"`
	Msg       string          `json:"msg,omitempty"`
	Finding   string          `json:"finding,omitempty"`
	Tape      []sym.TapeEntry `json:"tape"`
	Observed  *nativeOutcome  `json:"observed_native,omitempty"`
	Confirmed bool            `json:"confirmed_natively"`
}

func treeID() string {
	out, err := exec.Command("git", "-C", repoDir, "rev-parse", "--short", "HEAD").Output()
	id := strings.TrimSpace(string(out))
	if err != nil {
		id = "unknown"
	}
	st, _ := exec.Command("git", "-C", repoDir, "status", "--porcelain").Output()
	if len(strings.TrimSpace(string(st))) > 0 {
		h := sha256.Sum256(st)
		d, _ := exec.Command("git", "-C", repoDir, "diff").Output()
		h = sha256.Sum256(append(st, d...))
		id += "+dirty-" + hex.EncodeToString(h[:4])
	}
	return id
}

// confirms reports whether the native outcome reproduces the violation.
func confirms(v sym.Violation, o nativeOutcome) bool {
	switch v.Kind {
	case "panic":
		return o.Panic != ""
	case "assert-fail":
		for _, f := range o.Failed {
			if f.ID == v.ID {
				return true
			}
		}
	case "input-write", "lock-discipline":
		return true // engine-side monitors have no native twin; reported on the engine's authority
	}
	return false
}

// ---------- evidence ----------

func finish(o checkOpts, seed int, start time.Time, loadTime time.Duration, reports []*sym.HarnessReport, findings []knownFinding) int {
	thorough := o.tier == "thorough"
	var viols, knownHits []sym.Violation
	var inconcl []string
	var models []sym.PathModel
	paths, steps, queries, asserts, triv := 0, int64(0), 0, 0, 0
	var solverTime time.Duration
	funcs := map[string]bool{}
	var notReached, reached, assumptions []string
	truncated := false
	for _, r := range reports {
		viols = append(viols, r.Violations...)
		knownHits = append(knownHits, r.KnownHits...)
		for _, s := range r.Inconclusive {
			inconcl = append(inconcl, r.Harness+": "+s)
		}
		models = append(models, r.Models...)
		paths += r.Paths
		steps += r.Steps
		queries += r.Queries
		asserts += r.Asserts
		triv += r.AssertsTriv
		solverTime += r.SolverTime
		for _, f := range r.Funcs {
			funcs[f] = true
		}
		for _, id := range r.NotReached {
			notReached = append(notReached, r.Harness+"/"+id)
		}
		for _, id := range r.Reached {
			reached = append(reached, r.Harness+"/"+id)
		}
		if len(r.Reached) == 0 && len(r.NotReached) == 0 && !r.Truncated && len(r.Violations) == 0 {
			// a harness whose Reach statements were never even executed proves nothing
			notReached = append(notReached, r.Harness+"/<no reach statement executed on any path>")
		}
		assumptions = append(assumptions, r.Assumptions...)
		if r.Truncated {
			truncated = true
			inconcl = append(inconcl, r.Harness+": exploration truncated (path/time budget)")
		}
		if r.UnknownFeas > 0 {
			inconcl = append(inconcl, fmt.Sprintf("%s: %d feasibility queries returned unknown (branches kept)", r.Harness, r.UnknownFeas))
		}
	}
	_ = truncated

	// native replay of violations and known hits, and validation of passing traces
	validated, mismatches := 0, 0
	var confirmed []replayFile
	var knownConfirmed []replayFile
	var mismatchNotes []string
	if !o.noReplay && (len(viols) > 0 || len(knownHits) > 0 || len(models) > 0) {
		nat, err := buildNative(o.prop)
		if err != nil {
			inconcl = append(inconcl, err.Error())
		} else {
			defer nat.close()
			var jobs []nativeJob
			for _, v := range viols {
				jobs = append(jobs, nativeJob{Harness: v.Harness, Tape: v.Tape, Thorough: thorough})
			}
			for _, v := range knownHits {
				jobs = append(jobs, nativeJob{Harness: v.Harness, Tape: v.Tape, Thorough: thorough})
			}
			for _, m := range models {
				jobs = append(jobs, nativeJob{Harness: m.Harness, Tape: m.Tape, Thorough: thorough})
			}
			outs, err := nat.run(jobs)
			if err != nil || len(outs) != len(jobs) {
				inconcl = append(inconcl, fmt.Sprintf("native replay failed: %v (%d of %d outcomes)", err, len(outs), len(jobs)))
			} else {
				k := 0
				tree := treeID()
				for _, v := range viols {
					out := outs[k]
					k++
					// Go randomises map iteration natively while the engine explored one particular
					// order: a violation that depends on it reproduces only in some native runs.
					// Any reproducing run is a real failing execution of the real code, so retry.
					for attempt := 0; attempt < 40 && !confirms(v, out); attempt++ {
						again, rerr := nat.run([]nativeJob{{Harness: v.Harness, Tape: v.Tape, Thorough: thorough}})
						if rerr != nil || len(again) != 1 {
							break
						}
						if confirms(v, again[0]) {
							out = again[0]
						}
					}
					rf := replayFile{Property: o.prop, Harness: v.Harness, Tier: o.tier, Tree: tree, Assert: v.ID, Kind: v.Kind, At: v.Pos, Msg: v.Msg, Finding: v.Finding, Tape: v.Tape, Observed: &out}
					if confirms(v, out) {
						rf.Confirmed = true
						confirmed = append(confirmed, rf)
					} else {
						inconcl = append(inconcl, fmt.Sprintf("%s: model for %s/%s at %s does not reproduce natively (encoder or stub bug): native=%+v", v.Harness, v.Kind, v.ID, v.Pos, out))
					}
				}
				for _, v := range knownHits {
					out := outs[k]
					k++
					rf := replayFile{Property: o.prop, Harness: v.Harness, Tier: o.tier, Tree: tree, Assert: v.ID, Kind: v.Kind, At: v.Pos, Finding: v.Finding, Tape: v.Tape, Observed: &out}
					if confirms(v, out) {
						rf.Confirmed = true
						knownConfirmed = append(knownConfirmed, rf)
					} else {
						inconcl = append(inconcl, fmt.Sprintf("%s: known-finding witness %s (%s) does not reproduce natively: native=%+v", v.Harness, v.Finding, v.ID, out))
					}
				}
				for _, m := range models {
					out := outs[k]
					k++
					ok := out.Panic == "" && out.TapeError == "" && !out.Assume && len(out.Failed) == 0 && out.Leftover == 0 && len(out.Observes) == len(m.Observes)
					if ok {
						for i := range m.Observes {
							if m.Observes[i] != out.Observes[i] {
								ok = false
								break
							}
						}
					}
					if ok {
						validated++
					} else {
						mismatches++
						if len(mismatchNotes) < 5 {
							jb, _ := json.Marshal(m)
							ob, _ := json.Marshal(out)
							mismatchNotes = append(mismatchNotes, fmt.Sprintf("engine=%s native=%s", jb, ob))
						}
					}
				}
			}
		}
	} else if o.noReplay {
		for _, v := range viols {
			confirmed = append(confirmed, replayFile{Property: o.prop, Harness: v.Harness, Assert: v.ID, Kind: v.Kind, At: v.Pos, Msg: v.Msg, Finding: v.Finding, Tape: v.Tape})
		}
		for _, v := range knownHits {
			knownConfirmed = append(knownConfirmed, replayFile{Property: o.prop, Harness: v.Harness, Assert: v.ID, Kind: v.Kind, At: v.Pos, Finding: v.Finding, Tape: v.Tape})
		}
	}
	if mismatches > 0 {
		inconcl = append(inconcl, fmt.Sprintf("%d passing traces disagree between engine and native build: %v", mismatches, mismatchNotes))
	}
	for _, nr := range notReached {
		inconcl = append(inconcl, "vacuity: reach witness never satisfiable: "+nr)
	}

	// write replay files for confirmed violations
	os.MkdirAll(filepath.Join(verifDir, "replay"), 0o755)
	var violationLines []string
	for _, rf := range confirmed {
		b, _ := json.MarshalIndent(rf, "", " ")
		h := sha256.Sum256(b)
		p := filepath.Join(verifDir, "replay", fmt.Sprintf("%s-%s-%s.json", o.prop, rf.Harness, hex.EncodeToString(h[:4])))
		os.WriteFile(p, b, 0o644)
		violationLines = append(violationLines, fmt.Sprintf("VIOLATION property=%s replay=%s", o.prop, p))
		notes := ""
		if rf.Observed != nil && len(rf.Observed.Notes) > 0 {
			notes = strings.Join(rf.Observed.Notes, "; ")
		}
		fmt.Printf("  violated: harness=%s assert=%s kind=%s at=%s %s %s\n", rf.Harness, rf.Assert, rf.Kind, rf.At, rf.Msg, notes)
	}
	// known findings
	knownSeen := map[string]bool{}
	var knownLines []string
	for _, rf := range knownConfirmed {
		if knownSeen[rf.Finding] {
			continue
		}
		knownSeen[rf.Finding] = true
		what := rf.Finding
		for _, f := range findings {
			if f.ID == rf.Finding {
				what = f.ID + ": " + f.What
			}
		}
		knownLines = append(knownLines, fmt.Sprintf("KNOWN-FINDING: property=%s %s [witness: harness=%s assert=%s]", o.prop, what, rf.Harness, rf.Assert))
	}
	sort.Strings(knownLines)

	// evidence
	var samples []interface{}
	for i, m := range models {
		if i >= 3 {
			break
		}
		samples = append(samples, map[string]interface{}{"kind": "completed path with model", "harness": m.Harness, "decisions": m.Decisions, "tape": m.Tape, "observes": m.Observes})
	}
	for _, r := range reports {
		if r.SampleSMT != "" && len(samples) < 6 {
			samples = append(samples, map[string]interface{}{"kind": "discharged assertion", "harness": r.Harness, "query": r.SampleSMT})
		}
	}
	if len(samples) == 0 {
		samples = append(samples, map[string]interface{}{"kind": "none", "note": "no path completed"})
	}
	var fl []string
	for f := range funcs {
		fl = append(fl, f)
	}
	sort.Strings(fl)
	var perHarness []map[string]interface{}
	for _, r := range reports {
		perHarness = append(perHarness, map[string]interface{}{
			"harness": r.Harness, "paths": r.Paths, "path_ends": r.PathEnds, "ssa_instructions": r.Steps,
			"solver_queries": r.Queries, "assertions_discharged_unsat": r.Asserts, "assertions_trivially_true": r.AssertsTriv,
			"violations": len(r.Violations), "known_finding_hits": len(r.KnownHits), "solver_time_s": r.SolverTime.Seconds(), "wall_s": r.Wall.Seconds(),
			"reach_witnesses": r.Reached,
		})
	}
	sort.Strings(assumptions)
	assumptions = uniq(assumptions)
	meta := propertyMeta[o.prop]
	ev := map[string]interface{}{
		"property_id": o.prop,
		"tier":        o.tier,
		"seed":        seed,
		"level":       "model_checking",
		"wall_s":      time.Since(start).Seconds(),
		"violations":  len(confirmed),
		"coverage": map[string]interface{}{
			"states":                        max(paths, 0),
			"transitions":                   steps,
			"traces_validated_against_impl": validated,
			"samples":                       samples,
			"exhaustive":                    false,
			"explanation":                   "states = symbolic paths completed (each path stands for every concrete input satisfying its path condition); transitions = go/ssa instructions executed symbolically; every assertion is an SMT query pc ∧ ¬cond that must be unsat; traces_validated = solver models of passing paths replayed through the natively compiled harness with every observed value equal.",
			"functions_encoded":             fl,
			"bounds":                        meta.Bounds,
			"outside_bounds":                meta.Outside,
			"queries":                       map[string]int{"total_solver_queries": queries, "assertions_unsat": asserts, "assertions_trivial": triv},
			"solver_time_s":                 solverTime.Seconds(),
			"load_and_ssa_build_s":          loadTime.Seconds(),
			"solvers":                       []string{o.solver},
			"inconclusive":                  inconcl,
			"reach_witnesses":               reached,
			"harnesses":                     perHarness,
			"known_findings_hit":            knownLines,
			"encoding":                      "regenerated from /repo working tree on this run (go/packages + go/ssa, overlay harnesses)",
			"tree":                          treeID(),
		},
		"assumptions": append(append([]string{}, meta.Assumptions...), assumptions...),
	}
	evDir := filepath.Join(verifDir, "evidence")
	if os.Getenv("GOSMT_REPO") != "" {
		// experiment against a scratch worktree: never touch the evidence of /repo itself
		evDir = filepath.Join(os.TempDir(), "gosmt_experiment_evidence")
	}
	os.MkdirAll(evDir, 0o755)
	eb, _ := json.MarshalIndent(ev, "", " ")
	os.WriteFile(filepath.Join(evDir, o.prop+".json"), eb, 0o644)

	for _, l := range knownLines {
		fmt.Println(l)
	}
	fmt.Printf("summary property=%s tier=%s paths=%d ssa_instr=%d queries=%d asserts_unsat=%d validated=%d violations=%d known=%d inconclusive=%d wall=%.1fs\n",
		o.prop, o.tier, paths, steps, queries, asserts, validated, len(confirmed), len(knownLines), len(inconcl), time.Since(start).Seconds())
	if len(violationLines) > 0 {
		for _, l := range violationLines {
			fmt.Println(l)
		}
		return 1
	}
	if len(inconcl) > 0 {
		for _, s := range inconcl {
			fmt.Println("INCONCLUSIVE:", s)
		}
		return 2
	}
	fmt.Printf("OK property=%s\n", o.prop)
	return 0
}

func uniq(s []string) []string {
	var out []string
	for i, x := range s {
		if i == 0 || x != s[i-1] {
			out = append(out, x)
		}
	}
	return out
}

func max(a, b int) int {
	if a > b {
		return a
	}
	return b
}

// ---------- replay command ----------

func cmdReplay(args []string) int {
	if len(args) < 1 {
		fmt.Fprintln(os.Stderr, "usage: gosmt replay <file>")
		return 2
	}
	b, err := os.ReadFile(args[0])
	if err != nil {
		fmt.Fprintln(os.Stderr, err)
		return 2
	}
	var rf replayFile
	if err := json.Unmarshal(b, &rf); err != nil {
		fmt.Fprintln(os.Stderr, err)
		return 2
	}
	nat, err := buildNative(rf.Property)
	if err != nil {
		fmt.Fprintln(os.Stderr, err)
		return 2
	}
	defer nat.close()
	outs, err := nat.run([]nativeJob{{Harness: rf.Harness, Tape: rf.Tape, Thorough: rf.Tier == "thorough"}})
	if err != nil || len(outs) != 1 {
		fmt.Fprintln(os.Stderr, "replay failed:", err)
		return 2
	}
	v := sym.Violation{ID: rf.Assert, Kind: rf.Kind}
	// native map iteration order is random: a violation that depends on it shows in some runs only
	for attempt := 0; attempt < 40 && !confirms(v, outs[0]); attempt++ {
		again, rerr := nat.run([]nativeJob{{Harness: rf.Harness, Tape: rf.Tape, Thorough: rf.Tier == "thorough"}})
		if rerr != nil || len(again) != 1 {
			break
		}
		outs = again
	}
	ob, _ := json.MarshalIndent(outs[0], "", " ")
	fmt.Println(string(ob))
	if confirms(v, outs[0]) {
		fmt.Printf("VIOLATION property=%s replay=%s\n", rf.Property, args[0])
		return 1
	}
	fmt.Println("not reproduced on the current tree")
	return 0
}
