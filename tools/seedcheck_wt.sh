#!/bin/bash
# usage: tools/seedcheck_wt.sh <seed-id> <property> [<property>...]
# Like seedcheck.sh, but never touches /repo's working tree: makes a scratch worktree of /repo
# under /tmp, applies /verif/seeded/<seed-id>/patch.diff there, points gosmt at it with
# GOSMT_REPO (evidence then goes to /tmp/gosmt_experiment_evidence, not /verif/evidence), and
# removes the worktree afterwards. Use while other checks are running against /repo.
set -u
seed=$1; shift
cd /verif
wt=/tmp/seedwt_$seed
git -C /repo worktree remove --force $wt 2>/dev/null
git -C /repo worktree add --detach $wt HEAD -q || exit 2
trap 'git -C /repo worktree remove --force '$wt'; git -C /repo worktree prune' EXIT
git -C $wt apply /verif/seeded/$seed/patch.diff || { echo "patch does not apply"; exit 2; }
for p in "$@"; do
  GOSMT_REPO=$wt ./bin/gosmt check $p --tier ${TIER:-quick} ${EXTRA:-} > /tmp/seed_${seed}_$p.log 2>&1
  rc=$?
  echo "seed=$seed property=$p exit=$rc $(grep -c '^VIOLATION' /tmp/seed_${seed}_$p.log) violation lines; $(grep 'violated:' /tmp/seed_${seed}_$p.log | sed 's/.*harness=\([^ ]*\) assert=\([^ ]*\).*/\1:\2/' | sort | uniq -c | sort -rn | head -4 | tr '\n' ';')"
done
