#!/usr/bin/env python3
"""Regenerates /verif/MANIFEST.json from the table below (kept in one place so the manifest
stays valid while checks are added)."""
import json, sys

CLAIMED = {
 # id: (level text, level note, design ref)
 "C20": ("Every helper law is an SMT query over symbolic inputs executed through the real go/ssa of codeMetadata.go, address.go, gasCost.go, output.go and esdtMetaData.go: all 65 536 byte pairs per codec in one query each, every address length 0..40 with all byte values symbolic, all 2^128 (a,b) pairs of SafeSubUint64. Bounded only by the stated lengths.",
         "go/ssa lowering + engine instruction semantics + z3; passing paths are replayed natively (see evidence.traces_validated_against_impl).", "DESIGN.md §5 C20"),
}

NOT_YET = {}

ALL = ["C%02d" % i for i in range(1, 21)]

def main():
    checks = []
    for pid in ALL:
        if pid not in CLAIMED:
            continue
        text, note, ref = CLAIMED[pid]
        checks.append({
            "property_id": pid,
            "quick_cmd": "./bin/gosmt check %s --tier quick" % pid,
            "thorough_cmd": "./bin/gosmt check %s --tier thorough" % pid,
            "evidence_file": "/verif/evidence/%s.json" % pid,
            "replay_cmd_template": "./bin/gosmt replay {path}",
            "engine": "gosmt",
            "level_claimed": {"category": "model_checking", "text": text, "design_ref": ref},
            "level_note": note,
            "technique": "bounded symbolic execution of the real go/ssa with SMT (z3) deciding every assertion and branch; solver models replayed natively",
        })
    na = []
    for pid in ALL:
        if pid not in CLAIMED:
            na.append({"property_id": pid, "reason": NOT_YET.get(pid, "check not yet built in this session (engine exists; harness pending) - not claimed until it runs clean on the unchanged tree")})
    m = {
        "version": 1,
        "setup_cmd": "cd /verif/engine && GOFLAGS=-mod=mod GOPROXY=off GOSUMDB=off GOTOOLCHAIN=local go build -o /verif/bin/gosmt ./cmd/gosmt",
        "hooks": {
            "guard": "verif",
            "enable": "no source hooks in /repo: harnesses (//go:build verif) are injected by go/packages Overlay and `go test -c -tags verif -overlay` as the virtual package zz_verif/...",
            "baseline_off_cmd": "cd /repo && go test -vet=off -count=1 ./...",
            "source_commits": [],
            "add_only": True,
        },
        "engines": [{"name": "gosmt", "path": "/verif/engine", "serves_properties": sorted(CLAIMED.keys()),
                     "kind_free_text": "path-exploring symbolic executor for go/ssa (own code) emitting SMT-LIB2 to z3; counterexamples and sampled passing paths replayed against the natively compiled code"}],
        "checks": checks,
        "not_applicable": na,
        "notes": "exit 0 = all assertions unsat on all paths within the stated bounds; exit 1 = VIOLATION (natively reproduced); exit 2 = inconclusive (never green). Known findings: /verif/known_findings.json.",
    }
    json.dump(m, open("/verif/MANIFEST.json", "w"), indent=1)
    print("claimed:", sorted(CLAIMED.keys()))

main()
