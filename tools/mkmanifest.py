#!/usr/bin/env python3
"""Regenerates /verif/MANIFEST.json from the table below (kept in one place so the manifest
stays valid while checks are added)."""
import json, sys

NOTE = "go/packages+go/ssa lowering, the engine's instruction semantics and intrinsics (math/big over SMT Int, bytealg leaves, fmt.Errorf/errors.Is identity model, sync/atomic as memory, reflect subset + mapstructure.Decode model), z3 4.8.12 (cvc5 1.0.3 --solve-bv-as-int for multiplication-heavy queries); world stubs and node assumptions of DESIGN.md §4; solver models of passing paths are replayed natively (traces_validated_against_impl) and every reported violation is reproduced natively first."
def claim(text, ref):
    return (text, NOTE, ref)
CLAIMED = {
 "C01": claim("Send, deliver and refund steps of ESDTTransfer / ESDTNFTTransfer / MultiESDTNFTTransfer are executed symbolically from an arbitrary Inv-world: per-key sender debit = destination credit = quantity carried by the emitted message (parsed by the real call-args parser), frame over the complete write log; histories by induction on the step invariant. Bounded by token-id/nonce/amount lengths and k<=2.", "DESIGN.md §5 C01, §14"),
 "C02": claim("One symbolic step of every non-transfer built-in against the supply table: exact delta with unbounded (Int) balances, non-negativity, overdraft only when amount > holding, no balance change elsewhere.", "DESIGN.md §5 C02"),
 "C03": claim("Role-gated, system-only, owner-only and DNS-only functions run with the real role handler over symbolic role cells / callers: success implies the specific authority, rejection implies an empty write log.", "DESIGN.md §5 C03"),
 "C04": claim("Every balance-writing step from pre-states with symbolic frozen bit and pause flag (read through the real esdtPause): no non-exempt write changes value or metadata of a frozen/paused entry; freeze/unfreeze and pause/unpause round trips.", "DESIGN.md §5 C04"),
 "C05": claim("SaveKeyValue with symbolic keys (all prefix relations to ELROND) and the write-log footprint of the other 22 functions against the key set derived from the input.", "DESIGN.md §5 C05"),
 "C06": claim("GasProvided and all 22 schedule entries as bit-vectors with wrap-around semantics: GasRemaining + forwarded <= GasProvided without carry on every successful path of every function, under-funded calls fail or consume all.", "DESIGN.md §5 C06"),
 "C07": claim("One symbolic step of ESDTNFTCreate and of the create-role hand-over (current owner, next owner, repeated delivery) against the counter invariant; histories by induction.", "DESIGN.md §5 C07"),
 "C08": claim("NFTCreate stores exactly the given metadata; one same-shard / cross-shard / multi hop leaves metadata equal (deep equality term); hash mismatch rejected; AddURI/UpdateAttributes change only their field. Abstract codec, whose contract C14 discharges on the generated code.", "DESIGN.md §5 C08"),
 "C09": claim("All five credit sites with a symbolic payability oracle, call type, caller and argument count around the attached-call threshold: credit implies oracle said payable or an exemption; metachain/self/length guards.", "DESIGN.md §5 C09"),
 "C10": claim("Every emitter's data string goes through the real tokenizer/hex decoder and must parse to what was encoded; the ESDT-transfer parser's report is compared with the write log's debits/credits on both sides.", "DESIGN.md §5 C10"),
 "C11": claim("All 23 ProcessBuiltinFunction with adversarial argument counts/lengths: every implicit Go panic site (nil deref, bounds, makeslice, division) is a solver query; make() sizes are checked against the input size; result shape.", "DESIGN.md §5 C11"),
 "C12": claim("The four parsers on arbitrary byte strings (all 256 values per position) and builder->parser round trips with symbolic names/arguments.", "DESIGN.md §5 C12"),
 "C13": claim("Engine-side write monitor over the whole input object graph (spare capacity included) and the function object's own state, plus two-run self-composition on the reset world with the same function object.", "DESIGN.md §5 C13"),
 "C14": claim("BigIntCaster and the generated Marshal/Size/Unmarshal executed from source against an in-harness reference encoder; decoders on arbitrary buffers; varint kernel over all 64-bit values.", "DESIGN.md §5 C14"),
 "C15": claim("Inv asserted on every logged write of every function (assumed on every generated cell): induction over histories.", "DESIGN.md §5 C15"),
 "C16": claim("Object built with arbitrary prices, SetNewGasConfig(g) with 22 independent symbolic entries, then one funded call: consumed gas equals that function's own formula.", "DESIGN.md §5 C16"),
 "C17": claim("Every stub call takes a fresh symbolic fault bit: any consumed fault implies (nil, error).", "DESIGN.md §5 C17"),
 "C18": claim("EpochConfirmed from an arbitrary reachable flag state with symbolic 32-bit epoch/activation; the production factory executed (reflect subset + modelled mapstructure.Decode): exactly 23 names, each bound by behaviour.", "DESIGN.md §5 C18"),
 "C19": claim("Step 1: lock/atomic discipline monitor on every sequential path of MutexMap, the atomics and all 15 mutex-guarded priced functions (price fields read under >= R, written under W in one section; atomic cells only through sync/atomic; map only under its lock) - a lockset argument for data-race freedom. Step 2: a cooperative scheduler explores every interleaving of 2 goroutines x 1 operation at synchronisation-operation granularity: MutexMap and the function container are compared with both sequential orders, counters lose no update, a call concurrent with SetNewGasConfig is charged wholly by one schedule.", "DESIGN.md §5 C19, §14.5"),
 "C20": claim("Every helper law is an SMT query over symbolic inputs executed through the real go/ssa of codeMetadata.go, address.go, gasCost.go, output.go and esdtMetaData.go.", "DESIGN.md §5 C20"),
}

NOT_YET = {}

ALL = ["C%02d" % i for i in range(1, 21)]

def main():
    checks = []
    for pid in ALL:
        if pid not in CLAIMED:
            continue
        text, note, ref = CLAIMED[pid]
        checks.append({
            "property_id": pid,
            "quick_cmd": "./bin/gosmt check %s --tier quick" % pid,
            "thorough_cmd": "./bin/gosmt check %s --tier thorough" % pid,
            "evidence_file": "/verif/evidence/%s.json" % pid,
            "replay_cmd_template": "./bin/gosmt replay {path}",
            "engine": "gosmt",
            "level_claimed": {"category": "model_checking", "text": text, "design_ref": ref},
            "level_note": note,
            "technique": "bounded symbolic execution of the real go/ssa with SMT (z3) deciding every assertion and branch; solver models replayed natively",
        })
    na = []
    for pid in ALL:
        if pid not in CLAIMED:
            na.append({"property_id": pid, "reason": NOT_YET.get(pid, "check not yet built in this session (engine exists; harness pending) - not claimed until it runs clean on the unchanged tree")})
    m = {
        "version": 1,
        "setup_cmd": "cd /verif/engine && GOFLAGS=-mod=mod GOPROXY=off GOSUMDB=off GOTOOLCHAIN=local go build -o /verif/bin/gosmt ./cmd/gosmt",
        "hooks": {
            "guard": "verif",
            "enable": "no source hooks in /repo: harnesses (//go:build verif) are injected by go/packages Overlay and `go test -c -tags verif -overlay` as the virtual package zz_verif/...",
            "baseline_off_cmd": "cd /repo && go test -vet=off -count=1 ./...",
            "source_commits": [],
            "add_only": True,
        },
        "engines": [{"name": "gosmt", "path": "/verif/engine", "serves_properties": sorted(CLAIMED.keys()),
                     "kind_free_text": "path-exploring symbolic executor for go/ssa (own code) emitting SMT-LIB2 to z3; counterexamples and sampled passing paths replayed against the natively compiled code"}],
        "checks": checks,
        "not_applicable": na,
        "notes": "exit 0 = all assertions unsat on all paths within the stated bounds; exit 1 = VIOLATION (natively reproduced); exit 2 = inconclusive (never green). Known findings: /verif/known_findings.json.",
    }
    json.dump(m, open("/verif/MANIFEST.json", "w"), indent=1)
    print("claimed:", sorted(CLAIMED.keys()))

main()
