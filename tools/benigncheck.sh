#!/bin/bash
# usage: tools/benigncheck.sh <worktree> <workers> <property>...
# Runs the quick checks against a scratch worktree holding a behaviour-preserving refactoring
# (GOSMT_REPO; evidence diverted to /tmp). Every check must exit 0: anything else is a false alarm.
wt=$1; w=$2; shift 2
cd /verif
for p in "$@"; do
  GOSMT_REPO=$wt ./bin/gosmt check $p --tier quick --workers $w > /tmp/benign_$(basename $wt)_$p.log 2>&1
  rc=$?
  echo "$(basename $wt) $p exit=$rc $(grep -c '^VIOLATION' /tmp/benign_$(basename $wt)_$p.log) violations $(grep -c '^INCONCL' /tmp/benign_$(basename $wt)_$p.log) inconclusive"
done
