#!/bin/bash
# usage: tools/seed_intake.sh <seed-id> <worktree>
# Re-confirms a sub-agent's seeded change in its scratch worktree (build; unedited suite passes with
# the change; demonstration fails with it and passes without it) and, if all four hold, copies
# it to /verif/seeded/<seed-id>/ (patch.diff, demo_test.go.txt, notes.md).
set -u
id=$1; wt=$2
export GOFLAGS=-mod=mod GOPROXY=off GOSUMDB=off GOTOOLCHAIN=local
cd $wt || exit 2
demo=$(git status --short | grep -o '[a-zA-Z/]*zz_demo[a-zA-Z0-9_]*_test.go' | head -1)
[ -n "$demo" ] || { echo "no demo file"; exit 2; }
pkgdir=$(dirname $demo)
hold=$(mktemp -d)
# normalise: start from clean source + patch
git checkout -- . ; git apply _seed/patch.diff || { echo "patch does not apply"; exit 2; }
go build ./... || { echo "BUILD FAILS"; exit 1; }
mv $demo $hold/
if go test -vet=off -count=1 ./... > $hold/suite.log 2>&1; then echo "1/2 build ok, unedited suite passes with change"; else echo "SUITE FAILS with change"; tail -20 $hold/suite.log; mv $hold/$(basename $demo) $demo; exit 1; fi
mv $hold/$(basename $demo) $demo
if go test -vet=off -count=1 ./$pkgdir -run 'Demo' > $hold/with.log 2>&1; then echo "DEMO PASSES with change (bad)"; exit 1; else echo "3 demo fails with change: $(grep -m2 -E 'FAIL:|Error:|panic' $hold/with.log | tr '\n' ' ')"; fi
git apply -R _seed/patch.diff
if go test -vet=off -count=1 ./$pkgdir -run 'Demo' > $hold/without.log 2>&1; then echo "4 demo passes without change"; else echo "DEMO FAILS without change (bad)"; tail -20 $hold/without.log; exit 1; fi
git apply _seed/patch.diff
mkdir -p /verif/seeded/$id
cp _seed/patch.diff /verif/seeded/$id/patch.diff
cp $demo /verif/seeded/$id/demo_test.go.txt
cp _seed/notes.md /verif/seeded/$id/notes.md
echo "$pkgdir/$(basename $demo)" > /verif/seeded/$id/demo_location.txt
rm -rf $hold
echo "stored /verif/seeded/$id"
