#!/bin/bash
# usage: tools/seedcheck.sh <seed-id> <property> [<property>...]
# Applies /verif/seeded/<seed-id>/patch.diff to /repo, runs the quick checks of the given
# properties, prints their exit codes, and restores /repo straight afterwards.
set -u
seed=$1; shift
cd /verif
if ! git -C /repo diff --quiet; then echo "/repo is dirty; refusing"; exit 2; fi
git -C /repo apply /verif/seeded/$seed/patch.diff || { echo "patch does not apply"; exit 2; }
trap 'git -C /repo checkout -- . ; cp -r /verif/evidence.bak/. /verif/evidence/ 2>/dev/null; rm -rf /verif/evidence.bak' EXIT
rm -rf /verif/evidence.bak; cp -r /verif/evidence /verif/evidence.bak
for p in "$@"; do
  ./bin/gosmt check $p --tier ${TIER:-quick} ${EXTRA:-} > /tmp/seed_${seed}_$p.log 2>&1
  rc=$?
  echo "seed=$seed property=$p exit=$rc $(grep -c '^VIOLATION' /tmp/seed_${seed}_$p.log) violation lines; $(grep 'violated:' /tmp/seed_${seed}_$p.log | sed 's/.*harness=\([^ ]*\) assert=\([^ ]*\).*/\1:\2/' | sort | uniq -c | sort -rn | head -4 | tr '\n' ';')"
done
